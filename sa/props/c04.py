"""C04  Lower-priority preferences are honoured only inside higher-priority bounds.

Order-domain abstract interpretation (shared engine with C03):
  C04.SIB    one iteration of get_status and of _calc_target_power map the same running bounds and
             proposal to the same new bounds on the conflict-free domain; get_status stops at
             priorities <= the actor's own.
  C04.KEEP   carving the exclusion zone out of a range never cuts an admissible value
             (adjust_exclusion_bounds keeps every point of the range that is outside the open zone).
  C04.ADOPT  a preferred power that is admissible within the running bounds becomes the target
             unchanged; an inadmissible one is replaced by an admissible input value with no
             admissible candidate strictly between the two (nearest on its side).
  C04.TIE    the two-sided case is decided by the distance test in the right orientation.
  C04.NOOP   a proposal with neither power nor bounds leaves the target unchanged and changes the
             running bounds only by the (idempotent) zone carving.
  C04.REPORT _Report.adjust_to_bounds applies the same clamp to the report's own fields, and
             get_status reports the swept bounds with the system exclusion zone.
"""
from __future__ import annotations

import ast
from typing import Any

from ..engine.absint import Obj
from ..engine.order import Atom, OrderInterp
from ..engine.report import AnalysisError, Run
from ..engine.resolver import Program, body_walk
from ..engine.terms import Poly, TermEval
from ..engine.util import canon_total, find_calls, u
from .c03 import (
    BASE, BOUNDS, MAT, SHAPES_ALL, _report_orderings, check_quantity_truthiness, in_zone,
    loop_state_vars, may_fail, mk_excl, mk_proposal, split_sweep, synth,
)


def admissible_alts(it: OrderInterp, c: Any, L: Any, U: Any, excl: Any) -> list[list[tuple[str, Any, Any]]]:
    """Alternative fact sets under which `c` is an admissible value of [L, U] minus the open zone."""
    inside = [("<=", L, c), ("<=", c, U)]
    if excl is None:
        return [inside]
    zero = it.globals["__ZERO__"]
    el, eu = excl.fields["lower"], excl.fields["upper"]
    return [inside + [("<=", c, el)], inside + [("<=", eu, c)],
            inside + [("=", c, zero), ("<=", L, el), ("<=", eu, U)]]


def possibly_admissible(it: OrderInterp, c: Any, L: Any, U: Any, excl: Any,
                        extra: list[tuple[str, Any, Any]] | None = None,
                        allow_zero: bool = True) -> bool:
    alts = admissible_alts(it, c, L, U, excl)
    if not allow_zero and excl is not None:
        alts = alts[:2]  # zero is adopted only when asked for exactly; it is never a "nearest" value
    return any(it.possible(a + (extra or [])) for a in alts)


# ---------------------------------------------------------------------------------------------
def check_keep(run: Run, prog: Program) -> None:
    fn = prog.func(f"{BOUNDS}:adjust_exclusion_bounds")
    run.analysed(fn.qual)
    it = OrderInterp(prog, prog.module(BOUNDS))
    ctx: dict[str, Any] = {}

    def make_args() -> dict[str, Any]:
        it.globals["__ZERO__"] = Atom("ZERO")
        L, U = Atom("L"), Atom("U")
        it.assume("<=", L, U)
        excl = mk_excl(it, it.choose(2, "exclusion zone present") == 1)
        ctx.update(L=L, U=U, excl=excl)
        return {"lower_bound": L, "upper_bound": U, "exclusion_bounds": excl}

    def post(res: Any) -> Any:
        lo, hi = res
        zero = it.globals["__ZERO__"]
        if lo is zero and hi is zero:
            return None  # collapsed range: decided under C03.ENV
        bad = []
        excl = ctx["excl"]
        cands = [ctx["L"], ctx["U"]] + ([excl.fields["lower"], excl.fields["upper"]] if excl else [])
        for c in cands:
            inside = [("<=", ctx["L"], c), ("<=", c, ctx["U"])]
            outside_zone = [[]] if excl is None else [[("<=", c, excl.fields["lower"])],
                                                      [("<=", excl.fields["upper"], c)]]
            for oz in outside_zone:
                for cut in ([("<", c, lo)], [("<", hi, c)]):
                    if it.possible(inside + oz + cut):
                        bad.append(f"admissible value {c} can be cut off by the adjusted range "
                                   f"({lo}, {hi})")
        return ("bad", sorted(set(bad))) if bad else None

    outs = it.explore(fn.node, make_args, post)
    _report_orderings(run, "C04.KEEP", fn, outs, "zone carving keeps every admissible value of the range")
    if len(outs) < 10:
        raise AnalysisError(f"{fn.qual}: only {len(outs)} abstract paths")


# ---------------------------------------------------------------------------------------------
def check_sib(run: Run, prog: Program) -> None:
    calc = prog.func(f"{MAT}:Matryoshka._calc_target_power")
    stat = prog.func(f"{MAT}:Matryoshka.get_status")
    run.analysed(calc.qual)
    run.analysed(stat.qual)
    mod = prog.module(MAT)
    pro_c, loop_c, _ = split_sweep(calc)
    # get_status: the loop is the last top-level For
    body_s = [s for s in stat.node.body if not (isinstance(s, ast.Expr) and isinstance(s.value, ast.Constant))]
    loops_s = [s for s in body_s if isinstance(s, ast.For)]
    if len(loops_s) != 1:
        raise AnalysisError(f"{stat.qual}: expected exactly one proposal loop")
    loop_s = loops_s[0]
    # priority cut: strictly higher priorities only
    first = loop_s.body[0]
    pv = u(loop_s.target)
    ok = isinstance(first, ast.If) and canon_total(first.test) == ("<=", f"{pv}.priority", stat.params[2]) \
        and len(first.body) == 1 and isinstance(first.body[0], ast.Break)
    run.check(ok, "C04.SIB", stat.qual, first if isinstance(first, ast.If) else "priority cut",
              "get_status does not stop at the first proposal whose priority is <= the actor's own "
              "(an actor would be restricted by its own or lower-priority bounds, or not by an "
              "equal-priority peer as the target computation is)", node=first, file=stat.file)
    svars_c = loop_state_vars(pro_c, loop_c)
    stepc = synth("step_calc", svars_c + [u(loop_c.target)], [ast.For(
        target=ast.Name(id="_once", ctx=ast.Store()), iter=ast.List(elts=[ast.Constant(0)], ctx=ast.Load()),
        body=loop_c.body, orelse=[])], ["lower_bound", "upper_bound"])
    params_s = ["lower_bound", "upper_bound", "exclusion_bounds", stat.params[2], pv]
    steps = synth("step_status", params_s, [ast.For(
        target=ast.Name(id="_once", ctx=ast.Store()), iter=ast.List(elts=[ast.Constant(0)], ctx=ast.Load()),
        body=loop_s.body, orelse=[])], ["lower_bound", "upper_bound"])
    it = OrderInterp(prog, mod)
    ctx: dict[str, Any] = {}
    shapes = [(0, lo, hi) for lo in (0, 1) for hi in (0, 1)]

    def make_args() -> dict[str, Any]:
        it.globals["__ZERO__"] = Atom("ZERO")
        L, U = Atom("L"), Atom("U")
        it.assume("<=", L, U)
        excl = mk_excl(it, it.choose(2, "exclusion zone present") == 1)
        p = mk_proposal(it, shapes=shapes)
        p.fields["priority"] = 5
        ctx.update(L=L, U=U, excl=excl, p=p)
        args = {v: None for v in svars_c}
        args.update(lower_bound=L, upper_bound=U, target_power=it.globals["__ZERO__"],
                    exclusion_bounds=excl)
        args[u(loop_c.target)] = p
        return args

    def post(res: Any) -> Any:
        L1, U1 = res
        L, U, p, excl = ctx["L"], ctx["U"], ctx["p"], ctx["excl"]
        # conflict-free domain: max(L, pl) <= min(U, pu)
        pl = p.fields["bounds"].fields["lower"] or L
        pu = p.fields["bounds"].fields["upper"] or U
        lo = it.builtin("max", [L, pl], {}, calc.node)
        hi = it.builtin("min", [U, pu], {}, calc.node)
        if it.cmp3(lo, hi, "conflict?") == ">":
            return None  # conflicting proposal: outside C04's quantifier
        args = {"lower_bound": L, "upper_bound": U, "exclusion_bounds": excl,
                stat.params[2]: 1, pv: p}
        L2, U2 = it.call_node(steps, args)
        bad = []
        if not (it.entails("=", L1, L2) and it.entails("=", U1, U2)):
            bad.append(f"target sweep gives ({L1}, {U1}) but the report sweep gives ({L2}, {U2})")
        return ("bad", bad) if bad else None

    outs = it.explore(stepc, make_args, post)
    _report_orderings(run, "C04.SIB", calc, outs, "one iteration of the report sweep and of the target "
                      "sweep agree on the new running bounds (conflict-free domain)")
    if len(outs) < 100:
        raise AnalysisError(f"C04.SIB: only {len(outs)} abstract paths")
    run.extra_cov.setdefault("abstract_paths", {})["sweep_agreement"] = len(outs)
    # prologue agreement: both start from the system inclusion bounds and the same zone rule
    def zone_rule(fn: Any) -> str:
        for s in body_walk(fn.node):
            if isinstance(s, ast.If) and "exclusion_bounds" in u(s.test) and "Power.zero()" in u(s.test):
                return u(s.test).replace(" ", "")
        return ""
    run.check(zone_rule(calc) == zone_rule(stat) and zone_rule(calc) != "", "C04.SIB", stat.qual,
              "same degenerate-zone rule in both sweeps",
              "the two sweeps decide differently when the system exclusion zone is in force",
              node=stat.node, file=stat.file)


# ---------------------------------------------------------------------------------------------
def check_adopt(run: Run, prog: Program, tier: str) -> None:
    fn = prog.func(f"{MAT}:Matryoshka._calc_target_power")
    mod = prog.module(MAT)
    pro, loop, _ = split_sweep(fn)
    svars = loop_state_vars(pro, loop)
    step = synth("step", svars + [u(loop.target)], [ast.For(
        target=ast.Name(id="_once", ctx=ast.Store()), iter=ast.List(elts=[ast.Constant(0)], ctx=ast.Load()),
        body=loop.body, orelse=[])], ["lower_bound", "upper_bound", "target_power"])
    it = OrderInterp(prog, mod)
    ctx: dict[str, Any] = {}
    shapes = [(1, 0, 0)] if tier == "quick" else [(1, lo, hi) for lo in (0, 1) for hi in (0, 1)]
    shapes_noop = [(0, 0, 0)]

    def make(shapes_: list[tuple[int, int, int]]):
        def make_args() -> dict[str, Any]:
            it.globals["__ZERO__"] = Atom("ZERO")
            L, U, T = Atom("L"), Atom("U"), Atom("T")
            it.assume("<=", L, U)
            excl = mk_excl(it, it.choose(2, "exclusion zone present") == 1)
            p = mk_proposal(it, shapes=shapes_)
            ctx.update(L=L, U=U, T=T, excl=excl, p=p)
            args = {v: None for v in svars}
            args.update(lower_bound=L, upper_bound=U, target_power=T, exclusion_bounds=excl)
            args[u(loop.target)] = p
            return args
        return make_args

    def post_adopt(res: Any) -> Any:
        _L2, _U2, T2 = res
        L, U, excl, p = ctx["L"], ctx["U"], ctx["excl"], ctx["p"]
        v = p.fields["preferred_power"]
        bad = []
        if not isinstance(T2, Atom):
            return ("shape", f"target {T2!r} is not an input value")
        if it.entails("=", T2, v):
            return None
        # the preference was altered: it must not have been admissible
        if possibly_admissible(it, v, L, U, excl):
            bad.append(f"an admissible preferred power {v} is not adopted unchanged (target {T2})")
        if T2 is ctx["T"] and not it.entails("=", T2, v):
            # target left as it was: allowed only when nothing in the range is admissible
            cands = [L, U] + ([excl.fields["lower"], excl.fields["upper"]] if excl else [])
            if any(possibly_admissible(it, c, L, U, excl) for c in cands) and not (
                    excl is not None and it.entails("<", excl.fields["lower"], L)
                    and it.entails("<", U, excl.fields["upper"])):
                bad.append(f"preferred power {v} ignored although admissible values exist")
            return ("bad", bad) if bad else None
        # nearest: no admissible candidate strictly between v and the chosen target
        cands = [L, U] + ([excl.fields["lower"], excl.fields["upper"]] if excl else [])
        for c in cands:
            for between in ([("<", v, c), ("<", c, T2)], [("<", T2, c), ("<", c, v)]):
                if possibly_admissible(it, c, L, U, excl, between, allow_zero=False):
                    bad.append(f"admissible value {c} lies strictly between the preference {v} and "
                               f"the chosen target {T2}")
        return ("bad", sorted(set(bad))) if bad else None

    outs = it.explore(step, make(shapes), post_adopt)
    _report_orderings(run, "C04.ADOPT", fn, outs, "an admissible preference is adopted unchanged, an "
                      "inadmissible one is replaced by the nearest admissible value on its side")
    if len(outs) < 60:
        raise AnalysisError(f"C04.ADOPT: only {len(outs)} abstract paths")
    run.extra_cov.setdefault("abstract_paths", {})["adopt_step"] = len(outs)

    def post_noop(res: Any) -> Any:
        L2, U2, T2 = res
        L, U, excl = ctx["L"], ctx["U"], ctx["excl"]
        bad = []
        if T2 is not ctx["T"]:
            bad.append(f"a proposal without power and bounds changed the target to {T2}")
        adj = prog.func(f"{BOUNDS}:adjust_exclusion_bounds")
        La, Ua = it.call_func(adj, [L, U, excl], {})
        same = it.entails("=", L2, L) and it.entails("=", U2, U)
        carved = isinstance(La, Atom) and it.entails("=", L2, La) and it.entails("=", U2, Ua)
        if not (same or carved):
            bad.append(f"a proposal without power and bounds changed the running bounds to ({L2}, {U2})")
        return ("bad", bad) if bad else None

    outs = it.explore(step, make(shapes_noop), post_noop)
    _report_orderings(run, "C04.NOOP", fn, outs, "a proposal with neither power nor bounds is "
                      "equivalent to no proposal")
    if len(outs) < 5:
        raise AnalysisError(f"C04.NOOP: only {len(outs)} abstract paths")


def check_tie(run: Run, prog: Program) -> None:
    fn = prog.func(f"{MAT}:Matryoshka._calc_target_power")
    te = TermEval()
    found = 0
    for n in ast.walk(fn.node):
        if not isinstance(n, ast.match_case):
            continue
        pat = n.pattern
        if not (isinstance(pat, ast.MatchSequence) and len(pat.patterns) == 2 and all(
                isinstance(p, ast.MatchAs) and p.name for p in pat.patterns)):
            continue
        low, high = pat.patterns[0].name, pat.patterns[1].name  # type: ignore[union-attr]
        ifs = [s for s in n.body if isinstance(s, ast.If)]
        if len(ifs) != 1:
            continue
        found += 1
        t = ifs[0]
        ok = False
        detail = "distance test not recognised"
        if isinstance(t.test, ast.Compare) and len(t.test.ops) == 1 and isinstance(
                t.test.ops[0], (ast.Lt, ast.LtE, ast.Gt, ast.GtE)):
            l, r = te.ev(t.test.left), te.ev(t.test.comparators[0])
            d = l - r if isinstance(t.test.ops[0], (ast.Lt, ast.LtE)) else r - l  # d < 0 => true branch
            pref = None
            for a in d.atoms():
                if a not in (low, high):
                    pref = a
            want = Poly.atom(high) + Poly.atom(low) - Poly.atom(pref or "?").scale(2)
            true_sets = [u(s.value) for s in t.body if isinstance(s, ast.Assign)]
            false_sets = [u(s.value) for s in t.orelse if isinstance(s, ast.Assign)]
            if d == want:
                ok = true_sets == [high] and false_sets == [low]
            elif d == -want:
                ok = true_sets == [low] and false_sets == [high]
            detail = (f"`{u(t.test)}` selects {true_sets} / else {false_sets}: the candidate farther "
                      "from the preferred power is chosen")
            if pref is not None and "preferred_power" not in pref:
                ok = False
                detail = f"the distance is measured from `{pref}`, not from the preferred power"
        run.check(ok, "C04.TIE", fn.qual, t.test, detail, node=t, file=fn.file)
    if found != 1:
        raise AnalysisError(f"{fn.qual}: two-sided clamp arm not found ({found})")


def check_report(run: Run, prog: Program) -> None:
    fn = prog.func(f"{BASE}:_Report.adjust_to_bounds")
    run.analysed(fn.qual)
    calls = find_calls(fn.node, lambda c: u(c.func).endswith("clamp_to_bounds"))
    ok = len(calls) == 1 and [u(a) for a in calls[0].args] == [
        fn.params[1], "self._inclusion_bounds.lower", "self._inclusion_bounds.upper", "self._exclusion_bounds"]
    run.check(ok, "C04.REPORT", fn.qual, calls[0] if calls else "clamp_to_bounds(...)",
              "what an actor is told (adjust_to_bounds) is not the same clamp over the report's own "
              "bounds that the manager applies", node=fn.node, file=fn.file)
    rets = [n for n in body_walk(fn.node) if isinstance(n, ast.Return)]
    ok = any(r.value is calls[0] for r in rets) if calls else False
    run.check(ok, "C04.REPORT", fn.qual, "return clamp_to_bounds(...)", "the clamp result is not returned",
              node=fn.node, file=fn.file)
    # callee resolves to the same function the sweep uses
    tgt = prog.resolve_name(fn.module, u(calls[0].func)) if calls else None
    run.check(getattr(tgt, "qual", None) == f"{BOUNDS}:clamp_to_bounds", "C04.REPORT", fn.qual,
              "resolved callee", "adjust_to_bounds does not resolve to _bounds.clamp_to_bounds",
              node=fn.node, file=fn.file)
    st = prog.func(f"{MAT}:Matryoshka.get_status")
    reports = find_calls(st.node, lambda c: u(c.func) == "_Report")
    ok = False
    for c in reports:
        kws = {k.arg: k.value for k in c.keywords}
        ib = kws.get("_inclusion_bounds")
        if isinstance(ib, ast.Call):
            bk = {k.arg: u(k.value) for k in ib.keywords}
            ok = bk == {"lower": "lower_bound", "upper": "upper_bound"} and \
                u(kws.get("_exclusion_bounds")) == f"{st.params[3]}.exclusion_bounds"
    run.check(ok, "C04.REPORT", st.qual, "_Report(_inclusion_bounds=Bounds(lower_bound, upper_bound), "
              "_exclusion_bounds=system exclusion bounds)",
              "the report does not carry the swept bounds together with the system exclusion zone",
              node=st.node, file=st.file)
    prop = prog.func(f"{BASE}:_Report.bounds")
    rets = [n for n in body_walk(prop.node) if isinstance(n, ast.Return)]
    run.check(len(rets) == 1 and u(rets[0].value) == "self._inclusion_bounds", "C04.REPORT", prop.qual,
              "bounds -> _inclusion_bounds", "the public bounds are not the swept inclusion bounds",
              node=prop.node, file=prop.file)


CONTROLS = [
    ("zone edge treated as inside", BOUNDS,
     "    if exclusion_bounds.lower < lower_bound < exclusion_bounds.upper:",
     "    if exclusion_bounds.lower <= lower_bound < exclusion_bounds.upper:", "C04.KEEP"),
    ("priority cut uses <", MAT, "            if next_proposal.priority <= priority:",
     "            if next_proposal.priority < priority:", "C04.SIB"),
    ("report sweep narrows with the un-defaulted bound", MAT,
     "            calc_lower_bound = max(lower_bound, proposal_lower)",
     "            calc_lower_bound = max(upper_bound, proposal_lower)", "C04.SIB"),
    ("tie test flipped", MAT,
     "                            target_power = power_high\n                        else:\n                            target_power = power_low",
     "                            target_power = power_low\n                        else:\n                            target_power = power_high",
     "C04.TIE"),
    ("adjust_to_bounds uses other bounds", BASE,
     "            self._inclusion_bounds.lower,\n            self._inclusion_bounds.upper,\n            self._exclusion_bounds,",
     "            self._inclusion_bounds.lower,\n            self._inclusion_bounds.upper,\n            None,",
     "C04.REPORT"),
    ("single-point bounds treated as a conflict", MAT,
     "            if upper_bound < lower_bound:\n                break",
     "            if upper_bound <= lower_bound:\n                break", "C04.ADOPT"),
    ("empty proposal re-clamps the inherited target", MAT,
     "            if next_proposal.preferred_power:\n                match _bounds.clamp_to_bounds(\n                    next_proposal.preferred_power,",
     "            if next_proposal.preferred_power or target_power:\n                match _bounds.clamp_to_bounds(\n                    next_proposal.preferred_power or target_power,",
     "C04.NOOP"),
]


def run_rules(run: Run, prog: Program, tier: str = "quick") -> None:
    check_keep(run, prog)
    check_sib(run, prog)
    check_adopt(run, prog, tier)
    check_tie(run, prog)
    check_report(run, prog)


def check(run: Run, prog: Program, tier: str) -> str:
    run.rule("C04.SIB", "report sweep and target sweep agree per iteration on the conflict-free "
             "domain; the report sweep stops at priorities <= own")
    run.rule("C04.KEEP", "zone carving never cuts an admissible value of the range")
    run.rule("C04.ADOPT", "admissible preference adopted unchanged; otherwise nearest admissible "
             "input value on its side")
    run.rule("C04.TIE", "two-sided case chosen by distance to the preferred power, right orientation")
    run.rule("C04.NOOP", "a proposal with neither power nor bounds is equivalent to no proposal")
    run.rule("C04.REPORT", "adjust_to_bounds == the manager's clamp over the report's own bounds")
    check_quantity_truthiness(run)
    run_rules(run, prog, tier)
    run.floor("C04.SIB", 100)
    run.floor("C04.ADOPT", 60)
    run.floor("C04.KEEP", 10)
    run.floor("C04.NOOP", 5)
    run.floor("C04.REPORT", 5)
    from ..engine.controls import run_controls

    def select(expect: str):
        return {"C04.KEEP": lambda r, p: check_keep(r, p), "C04.SIB": lambda r, p: check_sib(r, p),
                "C04.ADOPT": lambda r, p: check_adopt(r, p, "quick"),
                "C04.NOOP": lambda r, p: check_adopt(r, p, "quick"),
                "C04.TIE": lambda r, p: check_tie(r, p),
                "C04.REPORT": lambda r, p: check_report(r, p)}[expect]

    run_controls(run, CONTROLS, run_rules, tier, select=select)
    run.undecided("optimality over conflicting proposal sets (outside the quantifier); end-to-end "
                  "'lowest-priority preference wins' follows from the sweep overwriting the target "
                  "in descending priority order, which is the loop structure checked under C03.ORD")
    run.extra_cov["exhaustive"] = True
    return ("Order-domain abstract interpretation: the report sweep and the target sweep are run on "
            "the same symbolic state inside one abstract run and must agree on the conflict-free "
            "domain; adoption / nearest-admissible / no-op are post-conditions of one generic sweep "
            "iteration decided by consistency of partial preorders (no solver); tie orientation is a "
            "polynomial normal-form rule; report/manager agreement is call provenance.")
