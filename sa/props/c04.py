"""C04  Lower-priority preferences are honoured only inside higher-priority bounds.

Order-domain abstract interpretation (shared engine with C03).  Nothing here depends on the names
of locals, on statement order, on if/else vs early return vs conditional expression, on keyword vs
positional arguments or on whether a piece of the sweep lives in a private helper: the roles of the
two sweeps (running lower / upper bound, effective exclusion zone, target, loop variable) are bound
by dataflow (`_c04_util.sweep_roles`), and every rule is a post-condition of an abstract run in
which helpers of the analysed class are called.

  C04.SIB    one iteration of get_status and of _calc_target_power map the same running bounds and
             proposal to the same new bounds on the conflict-free domain; a proposal whose priority
             is <= the actor's own leaves the reported bounds untouched (get_status stops there);
             both prologues start from the same bounds and the same effective exclusion zone.
  C04.KEEP   carving the exclusion zone out of a range never cuts an admissible value
             (adjust_exclusion_bounds keeps every point of the range that is outside the open zone).
  C04.ADOPT  a preferred power that is admissible within the running bounds becomes the target
             unchanged; an inadmissible one is replaced by an admissible input value with no
             admissible candidate strictly between the two (nearest on its side).
  C04.TIE    in the two-sided case the chosen edge is the one the path's distance test proves to be
             at most as far from the preferred power as the other edge.
  C04.NOOP   a proposal with neither power nor bounds leaves the target unchanged and changes the
             running bounds only by the (idempotent) zone carving.
  C04.RESULT calculate_target_power, for a group that has a bucket and system bounds, always sweeps the
             proposals - whatever earlier calls left in the instance (every attribute other than the
             buckets and the remembered target is in an arbitrary state) - and returns the fresh
             target unless it equals the remembered one and the caller does not insist.
  C04.STORE  whatever its shape (power / lower / upper bound present or not), the proposal handed to
             calculate_target_power is a member of the bucket _calc_target_power is called with - as that
             object, or as a record (dataclasses.replace / re-construction) that says field by field
             what the actor said: nothing of the call's context (system bounds, remembered target, the
             actor's previous proposal) is frozen into what is stored; the other actors' stored
             proposals are still there, unaltered.
  C04.BUCKET the collection a group's live proposals are kept in is a container of the language (set /
             list / dict, read through sorted / reversed), whose add / remove / iterate semantics every
             rule above assumes; a container class defined in the analysed tree in that role is
             reported: the property then rests on that class's correctness, which is not established.
  C04.LIVE   what both sweeps iterate is, after every history of public calls, exactly the set of proposals
             in force: every proposal that was stored and has not been replaced by its own actor or
             expired - a proposal of another actor (also one with the same priority) is not evicted by a
             store, and after the expiry sweep neither sweep walks a remembered copy of the bucket; the
             re-evaluation after the expiry sweep returns the target of a sweep over what is left (0 W when
             nothing is left) - "all proposals expired" is "no proposal", not "keep the last target".
  C04.REPORT _Report.adjust_to_bounds returns what clamp_to_bounds returns for the report's own
             fields; get_status reports the swept bounds with the system exclusion zone; the
             public `bounds` are those inclusion bounds.
"""
from __future__ import annotations

import ast
from typing import Any

from ..engine.absint import Obj
from ..engine.normalize import positional
from ..engine.order import Atom, OrderInterp
from ..engine.report import AnalysisError, Run
from ..engine.resolver import Program, walk_no_nested
from ..engine.terms import Poly
from ._c04_util import (
    STOPPED, HistoryInterp, NotReached, bucket_values, find_holder, fresh_state, proposals_in, split_sweep, instance_state, mk_system, with_op, LinInterp, StoreInterp, Sweep, compare_pairs, flip_strict, mirror, reach, splice, step_function, sweep_roles,
    synth,
)
from .c03 import BASE, BOUNDS, MAT, _report_orderings, check_quantity_truthiness, mk_excl, mk_proposal

CTP = f"{MAT}:Matryoshka.calculate_target_power"
STAT = f"{MAT}:Matryoshka.get_status"
BOUNDS_HINTS = {"clamp": "clamp_to_bounds", "adjust": "adjust_exclusion_bounds",
                "overlap": "check_exclusion_bounds_overlap"}


# ---------------------------------------------------------------------------------------------
# anchors bound by role (the name is only a hint)
# ---------------------------------------------------------------------------------------------
def bounds_fn(prog: Program, role: str) -> Any:
    """clamp / adjust / overlap function of the _bounds module: by name, else by what it computes on a
    probe without exclusion zone (clamp: 4 parameters; adjust returns the range, overlap two booleans)."""
    mod = prog.module(BOUNDS)
    if BOUNDS_HINTS[role] in mod.functions:
        return mod.functions[BOUNDS_HINTS[role]]
    found = []
    for f in mod.functions.values():
        if f.name.startswith("_") or len(f.params) != (4 if role == "clamp" else 3):
            continue
        if role == "clamp":
            found.append(f)
            continue
        it = LinInterp(prog, mod)
        it.frames = []
        it.reset()
        it.globals["__ZERO__"] = Atom("ZERO")
        a, b = Atom("L"), Atom("U")
        try:
            res = it.call_func(f, [a, b, None], {})
        except AnalysisError:
            continue
        if isinstance(res, tuple) and len(res) == 2:
            if role == "adjust" and res[0] is a and res[1] is b:
                found.append(f)
            if role == "overlap" and res[0] is False and res[1] is False:
                found.append(f)
    if len(found) != 1:
        raise AnalysisError(f"{BOUNDS}: no function plays the role '{role}' ({len(found)} candidates)")
    return found[0]


def report_cls(prog: Program) -> Any:
    """The report record handed to actors: the class of _base_classes with `adjust_to_bounds`."""
    cands = [c for c in prog.module(BASE).classes.values() if "adjust_to_bounds" in c.methods]
    if len(cands) != 1:
        raise AnalysisError(f"{BASE}: expected one class with adjust_to_bounds, found {len(cands)}")
    return cands[0]


def analysed_reach(run: Run, prog: Program, fn: Any) -> None:
    """Register `fn` and the same-module helpers it reaches: the interpreters call into all of them."""
    for h in reach(prog, fn):
        run.analysed(h.qual)
OWN = 5  # the requesting actor's priority in the abstract runs


def mk_prop(it: OrderInterp, tag: str = "p", shapes: list[tuple[int, int, int]] | None = None) -> Obj:
    """A proposal record for the sweep-level runs: what the actor said (shape chosen by a fork) plus the
    fields a proposal carries besides - its creation time (an input value of its own: nothing is known
    about the proposal's age) and the group it is for."""
    p = mk_proposal(it, tag=tag, shapes=shapes)
    p.fields.setdefault("creation_time", Atom(f"created_{tag}"))
    p.fields.setdefault("component_ids", "ids")
    return p


def calc_sweep(prog: Program) -> Sweep:
    ct = prog.func(CTP)
    if len(ct.params) != 5 or ct.cls is None:
        raise AnalysisError(f"{ct.qual}: expected (self, component_ids, proposal, system_bounds, must_return_power)")
    # entered through the public method (no new proposal, existing bucket): the target sweep is
    # whatever function reached from there holds the loop over the sorted proposals
    sw = sweep_roles(prog, ct, ct.params[3], {ct.params[1]: "ids", ct.params[2]: None, ct.params[4]: False})
    if sw.T is None:
        raise AnalysisError(f"{sw.fn.qual}: cannot bind the running target of the sweep")
    return sw


def stat_sweep(prog: Program) -> Sweep:
    fn = prog.func(STAT)
    if len(fn.params) != 4:
        raise AnalysisError(f"{fn.qual}: expected (self, component_ids, priority, system_bounds)")
    return sweep_roles(prog, fn, fn.params[3], {fn.params[1]: "ids", fn.params[2]: OWN})


def admissible_alts(it: OrderInterp, c: Any, L: Any, U: Any, excl: Any) -> list[list[tuple[str, Any, Any]]]:
    """Alternative fact sets under which `c` is an admissible value of [L, U] minus the open zone."""
    inside = [("<=", L, c), ("<=", c, U)]
    if excl is None:
        return [inside]
    zero = it.globals["__ZERO__"]
    el, eu = excl.fields["lower"], excl.fields["upper"]
    return [inside + [("<=", c, el)], inside + [("<=", eu, c)],
            inside + [("=", c, zero), ("<=", L, el), ("<=", eu, U)]]


def possibly_admissible(it: OrderInterp, c: Any, L: Any, U: Any, excl: Any,
                        extra: list[tuple[str, Any, Any]] | None = None,
                        allow_zero: bool = True) -> bool:
    alts = admissible_alts(it, c, L, U, excl)
    if not allow_zero and excl is not None:
        alts = alts[:2]  # zero is adopted only when asked for exactly; it is never a "nearest" value
    return any(it.possible(a + (extra or [])) for a in alts)


def possibly_inadmissible(it: OrderInterp, c: Any, L: Any, U: Any, excl: Any) -> bool:
    """Can `c` lie outside [L, U] minus the open zone (zero excepted when the zone is inside the range)?
    Complete negation of admissible_alts over the order facts of the run."""
    if it.possible([("<", c, L)]) or it.possible([("<", U, c)]):
        return True
    if excl is None:
        return False
    zero = it.globals["__ZERO__"]
    el, eu = excl.fields["lower"], excl.fields["upper"]
    inzone = [("<", el, c), ("<", c, eu)]
    return any(it.possible(inzone + [f]) for f in (("<", c, zero), ("<", zero, c), ("<", el, L), ("<", U, eu)))


def record_diffs(it: OrderInterp, want: Any, got: Any, path: str = "") -> list[tuple[str, Any, Any]]:
    """Fields (dotted) in which the record `got` does not say what the record `want` says: values of the
    run are compared as the order domain sees them (the same input value, or two values the facts of
    this path make equal).  Only fields the model of `want` carries are compared."""
    if isinstance(want, Obj) and isinstance(got, Obj) and want.cls == got.cls:
        out: list[tuple[str, Any, Any]] = []
        for f, a in want.fields.items():
            if f.startswith("__"):
                continue
            out.extend(record_diffs(it, a, got.fields.get(f, "<missing>"), f"{path}.{f}" if path else f))
        return out
    if want is got or (isinstance(want, Atom) and isinstance(got, Atom) and it.entails("=", want, got)):
        return []
    if not isinstance(want, (Atom, Obj)) and not isinstance(got, (Atom, Obj)) and type(want) is type(got) and want == got:
        return []
    return [(path or "value", want, got)]


def altered_message(what: str, diffs: list[tuple[str, Any, Any]]) -> str:
    """Message of C04.STORE for a stored record that differs from what its actor proposed."""
    parts = "; ".join(f"{f} is {b!r} where the actor said {a!r}" for f, a, b in diffs)
    origin = ""
    if any(isinstance(b, Atom) and b.name.startswith("sys") for _f, _a, b in diffs):
        origin = (" - a value of the system bounds of *this* call: the stored proposal outlives them, so after the "
                  "system bounds move (batteries return, SoC-dependent bounds) both sweeps keep honouring the frozen "
                  "value instead of 'current system bounds intersected with what the higher-priority actor asked for'")
    return (f"{what} is kept in the bucket in an altered form: {parts}{origin}.  What is stored must be, field by "
            "field, what the actor proposed - narrowing, defaulting, rounding or merging belongs to the sweep, "
            "which sees the bounds of the call at hand (the same goes for clipping the preferred power, filling "
            "missing bounds with the system's, or keeping parts of the actor's previous proposal)")


def _same(it: OrderInterp, a: Any, b: Any) -> bool:
    if a is None or b is None:
        return a is None and b is None
    if isinstance(a, Atom) and isinstance(b, Atom):
        return it.entails("=", a, b)
    return a is b


# ---------------------------------------------------------------------------------------------
BUCKETS = "_component_buckets"


def check_bucket(run: Run, prog: Program) -> bool:
    """C04.BUCKET  the collection that holds a group's live proposals is a container of the language.

    Every other rule decides the sweeps *given* that the bucket behaves like a Python builtin: one member
    per equality key, remove takes out exactly the equal member, iteration (through sorted / reversed)
    yields every member.  For set / list / dict that is the language's business.  With a container class
    defined in the analysed tree the same clauses ("the bounds of every higher-priority live proposal are
    in force and reported") rest on that class's insert / delete / lookup / iteration being correct for
    every size and history of the bucket - which no rule here establishes, so the construct is reported.
    Returns False iff it reported (the abstract runs below cannot be carried out on such a bucket)."""
    ct = prog.func(CTP)
    st = prog.func(STAT)
    owner = ct.cls
    if owner is None:
        raise AnalysisError(f"{ct.qual}: not a method")
    loops = []
    for entry in (ct, st):
        try:
            holder = find_holder(prog, entry)
            loops.append((holder, split_sweep(holder)[1]))
        except AnalysisError:
            pass  # the sweep-level rules say what is wrong with the shape of the sweep
    vals = bucket_values(prog, owner, BUCKETS, loops)
    clean = True
    seen: set[tuple[str, str]] = set()
    for v in vals:
        text = ast.unparse(v.site)
        if (v.fn.qual, text) in seen:
            continue
        seen.add((v.fn.qual, text))
        run.analysed(v.fn.qual)
        if v.kind == "builtin":
            run.ok("C04.BUCKET", f"{v.fn.qual} :: {text[:100]}")
            continue
        clean = False
        c = v.cls
        ops = ", ".join(m for m in sorted(c.methods) if not m.startswith("_") or m in (
            "__iter__", "__reversed__", "__contains__", "__len__")) or "its methods"
        run.violation(
            "C04.BUCKET", v.fn.qual, text,
            f"the live proposals of a component group are kept in `{c.name}` ({c.module.rel}), here {v.how}: "
            f"`{ast.unparse(v.node)}`.  The sweeps are decided for a bucket with the semantics of a Python builtin "
            "(set / list / dict read through sorted() or reversed()): one member per (priority, source) key, removal "
            "takes out exactly the equal member, iteration yields every member in order.  With a container class "
            f"defined in the repository, 'the target and the reported bounds honour the bounds of every "
            f"higher-priority live proposal, and only of those' now depends on the correctness of {c.name} "
            f"({ops}) for every size and every insert / delete history of the bucket, which nothing establishes: "
            "a delete that drops, keeps or duplicates another element makes an actor's bounds vanish from - or "
            "linger in - the target sweep and the report sweep alike.  (The same goes for any hand-written tree, "
            "heap, linked list, evicting cache or set subclass with overridden add / remove in this role.)",
            node=v.node, file=v.fn.file)
    if not vals:
        raise AnalysisError(f"{owner.qual}: no expression that creates a bucket of self.{BUCKETS} found (anchors moved?)")
    return clean


def check_keep(run: Run, prog: Program) -> None:
    fn = bounds_fn(prog, "adjust")
    analysed_reach(run, prog, fn)
    analysed_reach(run, prog, bounds_fn(prog, "overlap"))
    if len(fn.params) != 3:
        raise AnalysisError(f"{fn.qual}: expected (lower_bound, upper_bound, exclusion_bounds)")
    it = LinInterp(prog, prog.module(BOUNDS))
    ctx: dict[str, Any] = {}

    def make_args() -> dict[str, Any]:
        it.globals["__ZERO__"] = Atom("ZERO")
        L, U = Atom("L"), Atom("U")
        it.assume("<=", L, U)
        excl = mk_excl(it, it.choose(2, "exclusion zone present") == 1)
        ctx.update(L=L, U=U, excl=excl)
        return dict(zip(fn.params, (L, U, excl)))

    def post(res: Any) -> Any:
        if not (isinstance(res, tuple) and len(res) == 2 and all(isinstance(r, Atom) for r in res)):
            return ("shape", f"result {res!r} is not a pair of input values")
        lo, hi = res
        zero = it.globals["__ZERO__"]
        if lo is zero and hi is zero:
            return None  # collapsed range: decided under C03.ENV
        bad = []
        excl = ctx["excl"]
        cands = [ctx["L"], ctx["U"]] + ([excl.fields["lower"], excl.fields["upper"]] if excl else [])
        for c in cands:
            inside = [("<=", ctx["L"], c), ("<=", c, ctx["U"])]
            outside_zone = [[]] if excl is None else [[("<=", c, excl.fields["lower"])],
                                                      [("<=", excl.fields["upper"], c)]]
            for oz in outside_zone:
                for cut in ([("<", c, lo)], [("<", hi, c)]):
                    if it.possible(inside + oz + cut):
                        bad.append(f"admissible value {c} can be cut off by the adjusted range "
                                   f"({lo}, {hi})")
        return ("bad", sorted(set(bad))) if bad else None

    outs = it.explore(fn.node, make_args, post)
    _report_orderings(run, "C04.KEEP", fn, outs, "zone carving keeps every admissible value of the range")
    if len(outs) < 10:
        raise AnalysisError(f"{fn.qual}: only {len(outs)} abstract paths")


# ---------------------------------------------------------------------------------------------
EXPIRE = "drop_old_proposals"


def _sweep_loops(prog: Program) -> dict[str, tuple[Any, ast.For]]:
    """The proposal loop of the target sweep and of the report sweep, wherever they live (syntactic
    binding only: the roles of the locals are not needed to see *what* is iterated)."""
    out = {}
    for what, entry in (("target", prog.func(CTP)), ("report", prog.func(STAT))):
        holder = find_holder(prog, entry)
        out[what] = (holder, split_sweep(holder)[1])
    return out


def check_live(run: Run, prog: Program) -> bool:  # noqa: C901
    """C04.LIVE  what the two sweeps iterate is exactly the set of proposals in force.

    A history of public calls is executed on an instance as __init__ leaves it (no attribute is in an
    arbitrary state here: every container holds what the analysed code itself put there, so a derived
    structure - a sorted copy, an index per priority, a memo of the last sweep - holds what the code
    computed): actor `a` proposes, actor `b` proposes (a lower priority, or the *same* priority as `a`),
    a report is requested, the expiry sweep runs (the age test is open: every subset of the proposals
    expires on some path), the target is re-evaluated without a new proposal and a report is requested.
      (1) after the two stores, the target sweep and the report sweep (asked by a priority below both)
          iterate records of both `a` and `b`: storing a proposal takes out nothing but the same actor's
          previous one - identity is what Proposal.__eq__ says, (priority, source);
      (2) after the expiry sweep, both sweeps iterate exactly the members the group's bucket has now:
          an expired proposal is equivalent to no proposal, for the re-evaluated target and for the
          bounds reported to the lower priorities alike;
      (3) the re-evaluation after the expiry sweep (no new proposal, the caller insists on a value) returns
          the target of a sweep over the proposals now in force - when none is left, that of the empty
          sweep, 0 W, which is also what the same actors withdrawing with empty proposals give (C04.NOOP):
          it neither leaves without a value nor hands back a target remembered from an earlier step.
    Returns False iff it reported (the sweep-level runs assume what this rule establishes)."""
    ct, st = prog.func(CTP), prog.func(STAT)
    owner = ct.cls
    if owner is None or len(ct.params) != 5 or len(st.params) != 4:
        raise AnalysisError(f"{ct.qual} / {st.qual}: unexpected signatures")
    drop = prog.resolve_method(owner, EXPIRE)
    if drop is None or len(drop.params) != 2:
        raise AnalysisError(f"{owner.qual}: no expiry method {EXPIRE}(self, loop_time)")
    loops = _sweep_loops(prog)
    for fn in (ct, st, drop):
        analysed_reach(run, prog, fn)
    it = HistoryInterp(prog, prog.module(MAT))
    it.loops = [lp for _h, lp in loops.values()]
    try:  # the local that plays the running target, if the roles of the target sweep can be bound here
        swc = calc_sweep(prog)
        if swc.loop is loops["target"][1]:
            it.target_loop, it.target_name = swc.loop, swc.T
    except AnalysisError:
        pass  # the sweep-level rules say what is wrong with the shape of the sweep
    ctx: dict[str, Any] = {}

    def mk(tag: str, prio: int) -> Obj:
        return Obj("Proposal", preferred_power=Atom(f"{tag}_pref"),
                   bounds=Obj("Bounds", lower=Atom(f"{tag}_lo"), upper=Atom(f"{tag}_hi")),
                   priority=prio, source_id=tag, creation_time=Atom(f"created_{tag}"), component_ids="ids")

    def make_args() -> dict[str, Any]:
        sysb, _incl, _excl = mk_system(it, "strict")
        peer = it.choose(2, "the second actor has the same priority as the first") == 1
        a, b = mk("a", 4), mk("b", 4 if peer else 2)
        ctx.update(sysb=sysb, peer=peer, a=a, b=b, so=fresh_state(prog, owner, it))
        return {}

    def has(members: list[Any], p: Obj) -> bool:
        return any(isinstance(x, Obj) and it.key(x) == it.key(p) for x in members)

    def post(_res: Any) -> Any:
        so, sysb, a, b = ctx["so"], ctx["sysb"], ctx["a"], ctx["b"]
        bad: list[tuple[str, str, str]] = []  # (clause, sweep, text)
        who = "an actor with the same priority" if ctx["peer"] else "a lower-priority actor"
        _r, v1 = it.run_step("a proposes", ct, [so, "ids", a, sysb, True])
        _r, v2 = it.run_step("b proposes", ct, [so, "ids", b, sysb, True])
        _r, v3 = it.run_step("report", st, [so, "ids", 0, sysb])
        for what, visits in (("target", v2), ("report", v3)):
            for members in visits:
                for p in (a, b):
                    if not has(members, p):
                        bad.append(("evict", what, (
                            f"after actor '{a.fields['source_id']}' (priority {a.fields['priority']}) and then "
                            f"{who} '{b.fields['source_id']}' (priority {b.fields['priority']}) have proposed, the "
                            f"{what} sweep does not visit the proposal of '{p.fields['source_id']}', which is neither "
                            "replaced by its own actor nor expired")))
        it.run_step("expiry", drop, [so, Atom("now")])
        store = so.fields.get(BUCKETS)
        if not isinstance(store, dict):
            raise AnalysisError(f"{owner.qual}: self.{BUCKETS} is not a plain dict after __init__ ({store!r})")
        live = proposals_in(store.get("ids"))
        res5, v5 = it.run_step("re-evaluation", ct, [so, "ids", None, sysb, True])
        left5 = it.last_return
        if not v5 and not (not live and isinstance(res5, Atom) and res5.name == "ZERO"):
            gone = [p for p in (a, b) if not has(live, p)]
            names = " and ".join(f"'{p.fields['source_id']}'" for p in gone)
            if res5 is None:
                got = "returns None - no target is announced"
            elif isinstance(res5, Atom) and res5.name.startswith("TARGET_of_"):
                got = (f"returns the target computed when {res5.name[len('TARGET_of_'):].replace('_', ' ')} - a "
                       "target remembered from an earlier step")
            else:
                got = f"returns {res5!r}"
            entry_gone = "ids" not in store
            where = f"`{ast.unparse(left5)}` (line {left5.lineno})" if left5 is not None else "the end of the function"
            bad.append(("vanish", "target", (
                f"after the expiry sweep has taken the proposal of {names or 'nobody'} out"
                + (" and removed the group's entry from self." + BUCKETS if entry_gone else "")
                + f", the re-evaluation (calculate_target_power without a new proposal, the caller insists on a "
                f"value) leaves through {where} without sweeping "
                + (f"the {len(live)} proposal(s) now in force" if live else "what is left (the empty set)") + f" and {got}")))
            ctx["vanish_at"] = left5
        _r, v6 = it.run_step("report after expiry", st, [so, "ids", 0, sysb])
        for what, visits in (("target", v5), ("report", v6)):
            for members in visits:
                stale = [x for x in members if isinstance(x, Obj) and not any(x is y for y in live)
                         and not has(live, x)]
                lost = [y for y in live if not has(members, y)]
                if stale:
                    names = ", ".join(f"'{x.fields.get('source_id')}'" for x in stale)
                    bad.append(("stale", what, (
                        f"after the expiry sweep has taken the proposal of {names} out of the group's bucket, the "
                        f"{what} sweep still visits it")))
                if lost:
                    names = ", ".join(f"'{y.fields.get('source_id')}'" for y in lost)
                    bad.append(("lost", what, (
                        f"after the expiry sweep the proposal of {names} is still in the group's bucket (not "
                        f"expired), but the {what} sweep no longer visits it")))
        ctx["swept"] = (bool(v2), bool(v3), bool(v5), bool(v6))
        ctx["dropped"] = not (has(live, a) and has(live, b))
        return ("bad", bad) if bad else None

    driver = synth("history", [], [])
    def post_all(r: Any) -> Any:
        ctx.pop("vanish_at", None)
        verdict = post(r)
        return (verdict, ctx.get("swept"), ctx.get("dropped"), ctx.get("vanish_at"))

    outs = it.explore(driver, make_args, post_all)
    clean = True
    reported: set[tuple[str, str]] = set()
    n_dropped = n_swept = n_both = 0
    for o in outs:
        if o.kind == "raise":
            clean = False
            run.violation("C04.LIVE", ct.qual, f"raises {o.value}",
                          f"a history of public calls (two actors propose, report, expiry sweep, re-evaluation, report) "
                          f"raises {o.value} (decisions: {'; '.join(f'{l}={d}' for l, d in zip(o.labels, o.decisions))})",
                          node=o.raise_node or ct.node, file=ct.file)
            continue
        verdict, swept, dropped = o.post[:3]
        n_dropped += bool(dropped)
        n_swept += bool(swept and all(swept))
        n_both += bool(dropped and swept and all(swept))
        if verdict is None:
            run.ok("C04.LIVE", f"{ct.qual} / {st.qual}: history {o.decisions}")
            continue
        clean = False
        for clause, what, text in verdict[1]:
            if (clause, what) in reported:
                continue
            reported.add((clause, what))
            holder, loop = loops[what]
            tail = {
                "evict": ("What is stored for a component group distinguishes proposals more coarsely than "
                          "Proposal.__eq__ / __hash__ do ((priority, source)), or a store takes out more than the same "
                          "actor's previous proposal: the evicted actor's bounds no longer take part in the "
                          "intersection, so a lower priority's preferred power is adopted outside bounds a live "
                          "higher-priority actor has set, get_status reports the wider range, and which of the "
                          "proposals counts depends on the order of arrival.  (Same defect: a dict keyed by priority "
                          "or by source alone, one slot per priority, 'latest proposal wins' per bucket, a store that "
                          "clears or rebuilds the bucket.)"),
                "stale": ("The sweep does not read the bucket as it is now but something remembered from an earlier "
                          "call (a cached sorted list, an index, a snapshot) that the expiry sweep - a sibling "
                          "mutator of the buckets - does not refresh: the bounds and the preference of an actor whose "
                          "proposal has expired keep restricting the lower priorities until somebody happens to send "
                          "a new proposal; an expired proposal is not equivalent to no proposal.  Every method that "
                          "changes a bucket (store, expiry, removal of a group) must invalidate every structure "
                          "derived from it, or the sweeps must derive it afresh."),
                "lost": ("The sweep does not read the bucket as it is now: a proposal in force is ignored after the "
                         "expiry sweep (a derived structure is cleared but not rebuilt, or rebuilt from the expired "
                         "members)."),
                "vanish": ("The target downstream stays the one that was last announced - computed from proposals "
                           "that no longer exist - while get_status sweeps what is left: the target is not a function "
                           "of the live proposal set.  'Every proposal of the group has expired' must give what 'no "
                           "proposal' and 'every actor has withdrawn with an empty proposal (neither power nor "
                           "bounds)' give: the sweep over what is left, 0 W for the empty set, announced.  (Same "
                           "defect: the expiry sweep deletes the emptied bucket or forgets the remembered target, so "
                           "that the public method takes its 'group never seen' exit; an 'empty bucket -> return "
                           "None' short-cut; handing back the remembered target instead of sweeping.)"),
            }[clause]
            if clause == "vanish":
                at = o.post[3] if len(o.post) > 3 else None
                run.violation("C04.LIVE", ct.qual, ast.unparse(at) if at is not None else ct.name,
                              f"{text}.  {tail}  (history decisions: "
                              f"{'; '.join(f'{l}={d}' for l, d in zip(o.labels, o.decisions))})",
                              node=at or ct.node, file=ct.file)
                continue
            run.violation("C04.LIVE", holder.qual, f"for {ast.unparse(loop.target)} in {ast.unparse(loop.iter)}",
                          f"{text}.  {tail}  (history decisions: "
                          f"{'; '.join(f'{l}={d}' for l, d in zip(o.labels, o.decisions))})",
                          node=loop, file=holder.file)
    run.extra_cov.setdefault("abstract_paths", {})["histories"] = len(outs)
    if clean and (len(outs) < 6 or not n_both or 2 * n_swept < len(outs)):
        raise AnalysisError(f"C04.LIVE: {len(outs)} abstract histories, {n_dropped} with an expired proposal, "
                            f"{n_swept} in which every step reaches its sweep ({n_both} of them with an expired "
                            "proposal): the rule would pass vacuously")
    return clean


# ---------------------------------------------------------------------------------------------
def check_sib(run: Run, prog: Program) -> None:
    swc, sws = calc_sweep(prog), stat_sweep(prog)
    calc, stat = swc.entry, sws.entry
    analysed_reach(run, prog, calc)
    analysed_reach(run, prog, stat)
    stepc = step_function(swc, "step_calc", [swc.L, swc.U, STOPPED])
    steps = step_function(sws, "step_status", [sws.L, sws.U, STOPPED])
    it = LinInterp(prog, prog.module(MAT))
    ctx: dict[str, Any] = {}
    shapes = [(0, lo, hi) for lo in (0, 1) for hi in (0, 1)]

    def state(p_priority: int) -> None:
        it.globals["__ZERO__"] = Atom("ZERO")
        L, U = Atom("L"), Atom("U")
        it.assume("<=", L, U)
        excl = mk_excl(it, it.choose(2, "exclusion zone present") == 1)
        p = mk_prop(it, shapes=shapes)
        p.fields["priority"] = p_priority
        ctx.update(L=L, U=U, excl=excl, p=p)

    def status_frame() -> dict[str, Any]:
        return sws.frame(**{sws.L: ctx["L"], sws.U: ctx["U"], sws.X: ctx["excl"], sws.pv: ctx["p"]})

    # ---- (a) strictly higher priority: both sweeps narrow alike
    def make_args() -> dict[str, Any]:
        state(OWN + 1)
        return swc.frame(**{swc.L: ctx["L"], swc.U: ctx["U"], swc.T: it.globals["__ZERO__"],
                            swc.X: ctx["excl"], swc.pv: ctx["p"]})

    def post(res: Any) -> Any:
        L1, U1, stop1 = res
        L, U, p = ctx["L"], ctx["U"], ctx["p"]
        # conflict-free domain: max(L, pl) <= min(U, pu)
        pl = p.fields["bounds"].fields["lower"] or L
        pu = p.fields["bounds"].fields["upper"] or U
        lo = it.builtin("max", [L, pl], {}, calc.node)
        hi = it.builtin("min", [U, pu], {}, calc.node)
        if it.cmp3(lo, hi, "conflict?") == ">":
            return None  # conflicting proposal: outside C04's quantifier
        n_calc = len(it.state_test_sites)  # tests on remembered state made by the target sweep's iteration
        L2, U2, stop2 = it.call_node(steps, status_frame())
        if not (isinstance(L1, Atom) and isinstance(U1, Atom) and isinstance(L2, Atom) and isinstance(U2, Atom)):
            return ("shape", f"new bounds ({L1!r}, {U1!r}) / ({L2!r}, {U2!r}) are not input values")
        bad = []
        if not (it.entails("=", L1, L2) and it.entails("=", U1, U2)):
            bad.append(f"target sweep gives ({L1}, {U1}) but the report sweep gives ({L2}, {U2})")
        if stop1 is not stop2:
            which = "report" if stop2 else "target"
            bad.append(f"only the {which} sweep stops at this proposal: the bounds of the following "
                       "(lower, still restricting) proposals are honoured by one sweep and not by the other")
        if bad:
            by_calc = {lbl for lbl, _n in it.state_test_sites[:n_calc]}
            by_stat = {lbl for lbl, _n in it.state_test_sites[n_calc:]}
            one_sided = [(lbl, n, "report", "target") for lbl, n in it.state_test_sites[n_calc:] if lbl not in by_calc] \
                + [(lbl, n, "target", "report") for lbl, n in it.state_test_sites[:n_calc] if lbl not in by_stat]
            if one_sided:
                return ("state", (bad, one_sided))
        return ("bad", bad) if bad else None

    outs = it.explore(stepc, make_args, post)
    # disagreements that hang on a test of remembered instance state (a clock, an age, a flag) which only one
    # of the two sweeps makes: one report per test, at the test
    by_test: dict[tuple[str, str], list[Any]] = {}
    rest = []
    for o in outs:
        if o.kind == "return" and isinstance(o.post, tuple) and o.post[0] == "state":
            for lbl, n, who, other in o.post[1][1]:
                by_test.setdefault((lbl, who), []).append((o, n, other))
        else:
            rest.append(o)
    for (lbl, who), hits in by_test.items():
        o, n, other = hits[0]
        holder = (sws if who == "report" else swc).fn
        ordering = o.state.linear_extension() if o.state is not None else []
        run.violation(
            "C04.SIB", holder.qual,
            (ast.unparse(n) if n is not None else lbl)[:200],
            f"whether an iteration of the {who} sweep honours a proposal is decided by a test on remembered instance "
            f"state - `{lbl}`" + (f" (line {n.lineno})" if n is not None and hasattr(n, "lineno") else "")
            + f", reached from the proposal loop of {holder.qual} - which the {other} sweep does not make: on {len(hits)} abstract path(s) one iteration of the two "
            f"sweeps over the same running bounds and the same (conflict-free, higher-priority) proposal disagrees, e.g. "
            f"{'; '.join(o.post[1][0])} under the ordering {' < '.join('='.join(c) for c in ordering)}.  Which "
            "proposals are in force is the business of the bucket (the store and the expiry sweep) and must be the "
            "same for both sweeps at every moment: here an actor is told bounds computed without (or with) a proposal "
            "that still restricts (no longer restricts) the target, so the reported bounds are not the range in which "
            "its preferred power is adopted unchanged.  (Same defect: an age / clock / 'enabled' flag / 'seen since' "
            "filter or a cached decision consulted by one sweep only; a proposal skipped by one sweep until the next "
            "expiry sweep removes it; the same filter applied against two different clocks.)",
            node=n if n is not None and hasattr(n, "lineno") else holder.node, file=holder.file, ordering=ordering)
    if rest or not by_test:
        _report_orderings(run, "C04.SIB", calc, rest, "one iteration of the report sweep and of the target "
                          "sweep agree on the new running bounds (conflict-free domain)")
    if len(outs) < 100:
        raise AnalysisError(f"C04.SIB: only {len(outs)} abstract paths")
    run.extra_cov.setdefault("abstract_paths", {})["sweep_agreement"] = len(outs)

    # ---- (b) priority cut: proposals at or below the actor's own priority do not restrict it: they
    # are either never visited (filtered out of the loop's iterable) or leave the bounds untouched.
    # The sweep is in descending priority order (C04.DESC), so "stops at" and "skips" coincide.
    visit = synth("visited_by_status", list(sws.pro) + [ast.Assign(
        targets=[ast.Name(id="_visit_order", ctx=ast.Store())], value=sws.loop.iter)], ["_visit_order"])
    for pp, what in ((OWN, "its own priority (an equal-priority peer)"), (OWN - 1, "a lower priority")):
        def make_cut(pp: int = pp) -> dict[str, Any]:
            state(pp)
            sysb, _incl, _excl = mk_system(it, "strict", keep_zero=True)
            so = sws.self_obj()
            assert so is not None
            so.fields["_component_buckets"] = {"ids": [ctx["p"]]}
            return sws.enter(it, sysb, so)

        def post_cut(res: Any, what: str = what) -> Any:
            seq = res[0] if isinstance(res, tuple) and len(res) == 1 else None
            if not isinstance(seq, (list, tuple)):
                return ("shape", f"the report sweep iterates {seq!r}")
            if not any(x is ctx["p"] for x in seq):
                return None  # not visited at all
            L2, U2, _stop = it.call_node(steps, status_frame())
            if not (_same(it, L2, ctx["L"]) and _same(it, U2, ctx["U"])):
                return ("bad", [f"a proposal with {what} changes the bounds reported to the actor from "
                                f"({ctx['L']}, {ctx['U']}) to ({L2}, {U2}): get_status does not stop at the "
                                "first proposal whose priority is <= the actor's own"])
            return None

        outs = it.explore(visit, make_cut, post_cut)
        _report_orderings(run, "C04.SIB", stat, outs, "the report sweep ignores proposals with priority "
                          "<= the actor's own (strictly higher priorities only)")
        if len(outs) < 5:
            raise AnalysisError(f"C04.SIB: only {len(outs)} abstract paths in the priority cut")

    # ---- (c) prologue agreement: same initial bounds, same effective exclusion zone
    proc = synth("prologue_calc", swc.pro, [swc.L, swc.U, swc.X])
    pros = synth("prologue_status", sws.pro, [sws.L, sws.U, sws.X])

    def make_sys() -> dict[str, Any]:
        it.globals["__ZERO__"] = Atom("ZERO")
        zero = it.globals["__ZERO__"]
        sl, su = Atom("sysL"), Atom("sysU")
        it.assume("<=", sl, zero)
        it.assume("<=", zero, su)
        excl = mk_excl(it, it.choose(2, "system exclusion bounds present") == 1, ("sel", "seu"))
        sysb = Obj("SystemBounds", inclusion_bounds=Obj("Bounds", lower=sl, upper=su), exclusion_bounds=excl)
        ctx.update(sysb=sysb, sexcl=excl)
        return swc.enter(it, sysb)

    def post_sys(res: Any) -> Any:
        zero = it.globals["__ZERO__"]
        res2 = it.call_node(pros, sws.enter(it, ctx["sysb"]))
        if not (isinstance(res2, tuple) and len(res2) == 3):
            return ("shape", f"get_status does not reach its sweep with inclusion bounds present ({res2!r})")
        bad = []
        for what, a, b in zip(("lower bound", "upper bound", "exclusion zone"), res, res2):
            if not _same(it, a, b):
                bad.append(f"the sweeps start from different values of the {what}: {a!r} / {b!r}")
        sx = ctx["sexcl"]
        if sx is not None and not (it.entails("=", sx.fields["lower"], zero) and it.entails("=", sx.fields["upper"], zero)):
            if res[2] is not sx or res2[2] is not sx:
                bad.append("a non-degenerate system exclusion zone is not in force in both sweeps")
        return ("bad", bad) if bad else None

    outs = it.explore(proc, make_sys, post_sys)
    _report_orderings(run, "C04.SIB", stat, outs, "both sweeps start from the system inclusion bounds and "
                      "decide alike whether the system exclusion zone is in force")
    if len(outs) < 3:
        raise AnalysisError(f"C04.SIB: only {len(outs)} abstract paths in the prologue comparison")


# ---------------------------------------------------------------------------------------------
def check_adopt(run: Run, prog: Program, tier: str) -> None:
    sw = calc_sweep(prog)
    fn = sw.fn
    assert sw.T is not None
    step = step_function(sw, "step", [sw.L, sw.U, sw.T])
    it = LinInterp(prog, prog.module(MAT))
    ctx: dict[str, Any] = {}
    shapes = [(1, 0, 0)] if tier == "quick" else [(1, lo, hi) for lo in (0, 1) for hi in (0, 1)]
    shapes_noop = [(0, 0, 0)]

    def make(shapes_: list[tuple[int, int, int]]):
        def make_args() -> dict[str, Any]:
            it.globals["__ZERO__"] = Atom("ZERO")
            L, U, T = Atom("L"), Atom("U"), Atom("T")
            it.assume("<=", L, U)
            excl = mk_excl(it, it.choose(2, "exclusion zone present") == 1)
            p = mk_prop(it, shapes=shapes_)
            ctx.update(L=L, U=U, T=T, excl=excl, p=p)
            return sw.frame(**{sw.L: L, sw.U: U, sw.T: T, sw.X: excl, sw.pv: p})
        return make_args

    def tie_verdict(T2: Atom) -> Any:
        """Two-sided case (the preference lies strictly inside a zone whose both edges are usable):
        the chosen edge must be proved at most as far from the preference as the other edge by a
        linear fact the path has tested."""
        L, U, excl, v = ctx["L"], ctx["U"], ctx["excl"], ctx["p"].fields["preferred_power"]
        if excl is None:
            return None
        el, eu = excl.fields["lower"], excl.fields["upper"]
        zero = it.globals["__ZERO__"]
        two_sided = (it.entails("<", el, v) and it.entails("<", v, eu) and it.entails("<=", L, el)
                     and it.entails("<=", eu, U) and (it.entails("<", v, zero) or it.entails("<", zero, v)))
        if not two_sided:
            return None
        # W = (eu - v) - (v - el): W <= 0 iff the upper edge is at most as far as the lower edge
        w = Poly.atom(eu.name) + Poly.atom(el.name) - Poly.atom(v.name).scale(2)
        if it.entails("=", T2, eu):
            side, need = "upper", w
        elif it.entails("=", T2, el):
            side, need = "lower", -w
        else:
            return ("bad", f"two-sided case: the target {T2} is neither edge of the exclusion zone")
        if it.implied(need):
            return ("ok", f"{side} edge chosen under {it.lin_facts}")
        if not it.lin_facts:
            return ("bad", f"two-sided case: the {side} edge of the zone is chosen without a distance test")
        return ("bad", f"two-sided case: the {side} edge is chosen although the tested distance relation "
                       f"({'; '.join(f'{p!r} {chr(60) if s else chr(60) + chr(61)} 0' for p, s in it.lin_facts)}) "
                       "does not show it to be the closer one: the candidate farther from the preferred "
                       "power is chosen, or the distance is not measured from the preferred power")

    def post_adopt(res: Any) -> Any:
        _L2, _U2, T2 = res
        L, U, excl, p = ctx["L"], ctx["U"], ctx["excl"], ctx["p"]
        v = p.fields["preferred_power"]
        bad: list[str] = []
        if not isinstance(T2, Atom):
            return {"adopt": ("shape", f"target {T2!r} is not an input value"), "tie": None}
        if T2 is not ctx["T"] and possibly_inadmissible(it, T2, L, U, excl):
            bad.append(f"the new target {T2} can lie outside the running bounds ({L}, {U}) minus the "
                       "exclusion zone: it is not an admissible value")
        if it.entails("=", T2, v):
            return {"adopt": ("bad", bad) if bad else None, "tie": None}
        # the preference was altered: it must not have been admissible
        if possibly_admissible(it, v, L, U, excl):
            bad.append(f"an admissible preferred power {v} is not adopted unchanged (target {T2})")
        if T2 is ctx["T"] and not it.entails("=", T2, v):
            # target left as it was: allowed only when nothing in the range is admissible
            cands = [L, U] + ([excl.fields["lower"], excl.fields["upper"]] if excl else [])
            if any(possibly_admissible(it, c, L, U, excl) for c in cands) and not (
                    excl is not None and it.entails("<", excl.fields["lower"], L)
                    and it.entails("<", U, excl.fields["upper"])):
                bad.append(f"preferred power {v} ignored although admissible values exist")
            return {"adopt": ("bad", bad) if bad else None, "tie": None}
        # nearest: no admissible candidate strictly between v and the chosen target
        cands = [L, U] + ([excl.fields["lower"], excl.fields["upper"]] if excl else [])
        for c in cands:
            for between in ([("<", v, c), ("<", c, T2)], [("<", T2, c), ("<", c, v)]):
                if possibly_admissible(it, c, L, U, excl, between, allow_zero=False):
                    bad.append(f"admissible value {c} lies strictly between the preference {v} and "
                               f"the chosen target {T2}")
        return {"adopt": ("bad", sorted(set(bad))) if bad else None, "tie": tie_verdict(T2)}

    outs = it.explore(step, make(shapes), post_adopt)
    ties = []
    for o in outs:
        if isinstance(o.post, dict):
            if o.post["tie"] is not None:
                ties.append((o, o.post["tie"]))
            o.post = o.post["adopt"]
    _report_orderings(run, "C04.ADOPT", fn, outs, "an admissible preference is adopted unchanged, an "
                      "inadmissible one is replaced by the nearest admissible value on its side")
    if len(outs) < 60:
        raise AnalysisError(f"C04.ADOPT: only {len(outs)} abstract paths")
    run.extra_cov.setdefault("abstract_paths", {})["adopt_step"] = len(outs)
    # ---- C04.TIE on the two-sided paths of the same exploration
    if not ties:
        raise AnalysisError(f"{fn.qual}: no abstract path reaches the two-sided clamp case")
    sides = set()
    for o, (kind, detail) in ties:
        if kind == "ok":
            sides.add(detail.split()[0])
            run.ok("C04.TIE", f"{fn.qual}: path {o.decisions}")
        else:
            ordering = o.state.linear_extension() if o.state is not None else []
            run.violation("C04.TIE", fn.qual, f"{fn.name} result {o.value!r}",
                          f"{detail}; ordering {' < '.join('='.join(c) for c in ordering)}",
                          node=fn.node, file=fn.file, ordering=ordering)
    if not any(k != "ok" for _o, (k, _d) in ties) and sides != {"upper", "lower"}:
        run.violation("C04.TIE", fn.qual, "two-sided case", f"only the {sorted(sides)} edge can ever be chosen "
                      "in the two-sided case: the distance to the preferred power does not decide",
                      node=fn.node, file=fn.file)
    run.extra_cov.setdefault("abstract_paths", {})["two_sided"] = len(ties)

    def post_noop(res: Any) -> Any:
        L2, U2, T2 = res
        L, U, excl = ctx["L"], ctx["U"], ctx["excl"]
        bad = []
        if T2 is not ctx["T"]:
            bad.append(f"a proposal without power and bounds changed the target to {T2}")
        adj = bounds_fn(prog, "adjust")
        La, Ua = it.call_func(adj, [L, U, excl], {})
        same = _same(it, L2, L) and _same(it, U2, U)
        carved = isinstance(La, Atom) and isinstance(L2, Atom) and isinstance(U2, Atom) \
            and it.entails("=", L2, La) and it.entails("=", U2, Ua)
        if not (same or carved):
            bad.append(f"a proposal without power and bounds changed the running bounds to ({L2}, {U2})")
        return ("bad", bad) if bad else None

    outs = it.explore(step, make(shapes_noop), post_noop)
    _report_orderings(run, "C04.NOOP", fn, outs, "a proposal with neither power nor bounds is "
                      "equivalent to no proposal")
    if len(outs) < 5:
        raise AnalysisError(f"C04.NOOP: only {len(outs)} abstract paths")


# ---------------------------------------------------------------------------------------------
def check_report(run: Run, prog: Program) -> None:
    rcls = report_cls(prog)
    fn = rcls.methods["adjust_to_bounds"]
    clamp = bounds_fn(prog, "clamp")
    analysed_reach(run, prog, fn)
    analysed_reach(run, prog, clamp)
    if len(fn.params) != 2:
        raise AnalysisError(f"{fn.qual}: expected (self, power)")
    it = LinInterp(prog, prog.module(BASE))
    ctx: dict[str, Any] = {}

    def make_args() -> dict[str, Any]:
        it.globals["__ZERO__"] = Atom("ZERO")
        v, L, U = Atom("v"), Atom("L"), Atom("U")
        it.assume("<=", L, U)
        excl = mk_excl(it, it.choose(2, "exclusion zone present") == 1)
        rep = Obj(rcls.name, target_power=None, _inclusion_bounds=Obj("Bounds", lower=L, upper=U),
                  _exclusion_bounds=excl)
        ctx.update(v=v, L=L, U=U, excl=excl)
        return {fn.params[0]: rep, fn.params[1]: v}

    def post(res: Any) -> Any:
        want = it.call_func(clamp, [ctx["v"], ctx["L"], ctx["U"], ctx["excl"]], {})
        ok = isinstance(res, tuple) and isinstance(want, tuple) and len(res) == len(want) == 2 \
            and all(_same(it, a, b) for a, b in zip(res, want))
        if not ok:
            return ("bad", [f"adjust_to_bounds gives {res!r} where the manager's clamp over the report's own "
                            f"inclusion and exclusion bounds gives {want!r}"])
        return None

    outs = it.explore(fn.node, make_args, post)
    _report_orderings(run, "C04.REPORT", fn, outs, "what an actor is told (adjust_to_bounds) is the same "
                      "clamp over the report's own bounds that the manager applies")
    if len(outs) < 40:
        raise AnalysisError(f"{fn.qual}: only {len(outs)} abstract paths")

    # ---- get_status hands out the swept bounds together with the system exclusion zone
    sws = stat_sweep(prog)
    st = sws.entry
    if "bounds" not in rcls.methods:
        raise AnalysisError(f"{rcls.qual}: the public `bounds` of the report are gone")
    prop = rcls.methods["bounds"]
    run.analysed(st.qual)
    run.analysed(prop.qual)
    pros = synth("prologue_status", sws.pro, [sws.L, sws.U, sws.X])
    steps = step_function(sws, "step_status", [sws.L, sws.U, STOPPED])
    it2 = LinInterp(prog, prog.module(MAT))
    shapes = [(0, lo, hi) for lo in (0, 1) for hi in (0, 1)]

    def make_status() -> dict[str, Any]:
        it2.globals["__ZERO__"] = Atom("ZERO")
        zero = it2.globals["__ZERO__"]
        sl, su = Atom("sysL"), Atom("sysU")
        it2.assume("<=", sl, zero)
        it2.assume("<=", zero, su)
        excl = mk_excl(it2, it2.choose(2, "system exclusion bounds present") == 1, ("sel", "seu"))
        sysb = Obj("SystemBounds", inclusion_bounds=Obj("Bounds", lower=sl, upper=su), exclusion_bounds=excl)
        props = []
        if it2.choose(2, "a higher-priority proposal exists") == 1:
            p = mk_prop(it2, shapes=shapes)
            p.fields["priority"] = OWN + 1
            props.append(p)
        so = sws.self_obj()
        assert so is not None
        so.fields["_component_buckets"] = {"ids": props}
        ctx.update(sysb=sysb, sexcl=excl, props=props, so=so)
        return {st.params[0]: so, st.params[1]: "ids", st.params[2]: OWN, st.params[3]: sysb}

    def post_status(rep: Any) -> Any:
        if not (isinstance(rep, Obj) and rep.cls == rcls.name):
            return ("shape", f"get_status returns {rep!r}, not a {rcls.name}")
        inc = rep.fields.get("_inclusion_bounds")
        if not (isinstance(inc, Obj) and {"lower", "upper"} <= set(inc.fields)):
            return ("bad", [f"the report's inclusion bounds are {inc!r}"])
        L, U, X = it2.call_node(pros, sws.enter(it2, ctx["sysb"], ctx["so"]))
        for p in ctx["props"]:
            fr = sws.frame(ctx["so"], **{sws.L: L, sws.U: U, sws.X: X, sws.pv: p})
            L, U, _stop = it2.call_node(steps, fr)
        bad = []
        if not (_same(it2, inc.fields["lower"], L) and _same(it2, inc.fields["upper"], U)):
            bad.append(f"the report carries ({inc.fields['lower']}, {inc.fields['upper']}) but the sweep "
                       f"ends with ({L}, {U})")
        if rep.fields.get("_exclusion_bounds") is not ctx["sexcl"]:
            bad.append("the report does not carry the system exclusion zone")
        pub = it2.call_func(prop, [rep], {})
        if pub is not inc:
            bad.append("the public bounds are not the swept inclusion bounds")
        return ("bad", bad) if bad else None

    outs = it2.explore(st.node, make_status, post_status)
    _report_orderings(run, "C04.REPORT", st, outs, "the report carries the swept bounds together with the "
                      "system exclusion zone, and `bounds` are those inclusion bounds")
    if len(outs) < 20:
        raise AnalysisError(f"{st.qual}: only {len(outs)} abstract paths")


# ---------------------------------------------------------------------------------------------
def check_store(run: Run, prog: Program) -> None:
    """C04.STORE  whatever its shape, the proposal handed to calculate_target_power is - as that very
                  object, not an equal older one - a member of the bucket the sweep is run over.
       C04.RESULT the freshly computed target is returned unless it equals the remembered one and the
                  caller did not insist (only then may the result be None)."""
    ct = prog.func(CTP)
    swc = calc_sweep(prog)
    analysed_reach(run, prog, ct)
    it = StoreInterp(prog, prog.module(MAT))
    it.loop, it.target_name = swc.loop, swc.T
    ctx: dict[str, Any] = {}
    scenarios = ["first proposal of the group", "replaces the actor's previous proposal",
                 "joins another actor's proposal", "no new proposal, bucket exists"]

    def make_args() -> dict[str, Any]:
        it.globals["__ZERO__"] = Atom("ZERO")
        zero = it.globals["__ZERO__"]
        sl, su = Atom("sysL"), Atom("sysU")
        it.assume("<=", sl, zero)
        it.assume("<=", zero, su)
        sysb = Obj("SystemBounds", inclusion_bounds=Obj("Bounds", lower=sl, upper=su), exclusion_bounds=None)
        sc = it.choose(len(scenarios), "bucket before the call")
        p: Any = None
        old: Any = None
        other: Any = None
        if sc != 3:
            p = mk_prop(it, tag="new")
            p.fields["priority"] = 3
        buckets: dict[str, Any] = {}
        if sc == 1:
            old = mk_prop(it, tag="old", shapes=[(1, 1, 1)])
            old.fields.update(priority=3, source_id=p.fields["source_id"])
            buckets["ids"] = it.keyset([old])
        elif sc in (2, 3):
            other = mk_prop(it, tag="other", shapes=[(1, 1, 1)])
            other.fields["priority"] = 4
            buckets["ids"] = it.keyset([other])
        stored = Atom("OLD_TARGET") if it.choose(2, "a target is remembered") == 1 else None
        must = it.choose(2, "must_return_power") == 1
        # every attribute of the instance other than the buckets and the remembered target is in an
        # arbitrary state: whatever earlier calls may have left there must not decide anything
        so = instance_state(prog, ct.cls, _component_buckets=buckets,
                            _target_power={"ids": stored} if stored is not None else {})
        ctx.update(p=p, so=so, stored=stored, must=must, old=old, other=other)
        return dict(zip(ct.params, (so, "ids", p, sysb, must)))

    def post(res: Any) -> Any:
        p = ctx["p"]
        out: dict[str, Any] = {"store": None, "result": None}
        if not it.visits:
            ret = it.last_return
            where = f"`{ast.unparse(ret)}` (line {ret.lineno})" if ret is not None else "the end of the function"
            state = ", ".join(f"self.{n}" for n in it.state_reads)
            out["result"] = ("bad", [
                f"the group has a bucket of proposals and system bounds, but the call leaves through {where} "
                "without sweeping the proposals" + (f", on a path decided by remembered state ({state})" if state else "")
                + ": the target is not recomputed.  Any 'nothing changed since last time' short-cut keyed on "
                "this call's inputs (bounds, proposal, remembered target) misses changes made elsewhere - expiry in "
                "drop_old_proposals, another actor's proposal - so the effective target keeps honouring "
                "proposals that no longer exist while get_status sweeps the live bucket"])
            return out
        if len(it.visits) != 1:
            out["store"] = ("bad", [f"the proposals are swept {len(it.visits)} time(s) in one call"])
            return out
        if p is not None:
            members = it.visits[0]
            if not any(it.key(x) == it.key(p) for x in members if isinstance(x, Obj)):
                out["store"] = ("bad", ["the proposal handed to calculate_target_power is not in the bucket the "
                                        "sweep is run over: its bounds and preference are dropped (a proposal of this "
                                        "shape counts as a withdrawal), so lower priorities are no longer restricted "
                                        "by it"])
            elif any(x is ctx["old"] for x in members if ctx["old"] is not None):
                out["store"] = ("bad", ["the bucket the sweep is run over still holds the actor's previous proposal "
                                        "instead of the new one (set.add keeps an equal element): the stale bounds and "
                                        "preference stay in force"])
            elif not any(x is p for x in members):
                # a record built from the proposal stands in for it: it must say, field by field, what
                # the actor said
                q = next(x for x in members if isinstance(x, Obj) and it.key(x) == it.key(p))
                diffs = record_diffs(it, p, q)
                if diffs:
                    out["store"] = ("bad", [altered_message("the proposal handed to calculate_target_power", diffs)])
        if ctx["other"] is not None and it.visits:
            o = ctx["other"]
            kept = [x for x in it.visits[0] if isinstance(x, Obj) and it.key(x) == it.key(o)]
            msg = None
            if not kept:
                msg = ("another actor's stored proposal is no longer in the bucket the sweep is run over after this "
                       "call: only expiry (drop_old_proposals) and the actor's own next proposal may take it out; its "
                       "bounds stop restricting the lower priorities and stop being reported to them")
            elif not any(x is o for x in kept):
                diffs = record_diffs(it, o, kept[0])
                if diffs:
                    msg = altered_message("another actor's stored proposal", diffs)
            if msg and out["store"] is None:
                out["store"] = ("bad", [msg])
        new, stored = it.stub_result, ctx["stored"]
        if res is None:
            if ctx["must"] or stored is None or not it.entails("=", stored, new):
                why = "the caller insists on a value" if ctx["must"] else (
                    "no target is remembered" if stored is None else "it differs from the remembered one")
                out["result"] = ("bad", [f"the freshly computed target is not returned although {why}: the new "
                                         "target never takes effect"])
        elif res is not new:
            out["result"] = ("bad", [f"{res!r} is returned instead of the freshly computed target"])
        return out

    outs = it.explore(ct.node, make_args, post)
    import copy as _copy
    outs_r = []
    for o in outs:
        if isinstance(o.post, dict):
            r = _copy.copy(o)
            r.post = o.post["result"]
            outs_r.append(r)
            o.post = o.post["store"]
        else:
            outs_r.append(o)
    _report_orderings(run, "C04.STORE", ct, outs, "every proposal, whatever its shape, is in the bucket the "
                      "sweep runs over - as that object or as a record that says the same - and the other actors' "
                      "proposals stay as they were")
    _report_orderings(run, "C04.RESULT", ct, outs_r, "the freshly computed target is returned unless unchanged "
                      "and not insisted on")
    if len(outs) < 24:
        raise AnalysisError(f"{ct.qual}: only {len(outs)} abstract paths")


# ---------------------------------------------------------------------------------------------
def check_order(run: Run, prog: Program) -> None:
    """C04.DESC  both sweeps visit the proposals from the highest to the lowest priority: the iterable
    of the proposal loop, evaluated on a scrambled bucket of three priorities, is descending."""
    for sw in (calc_sweep(prog), stat_sweep(prog)):
        fn = sw.entry
        analysed_reach(run, prog, fn)
        it = LinInterp(prog, prog.module(MAT))
        visit = synth("visit_order", list(sw.pro) + [ast.Assign(
            targets=[ast.Name(id="_visit_order", ctx=ast.Store())], value=sw.loop.iter)], ["_visit_order"])
        ctx: dict[str, Any] = {}

        def make(sw: Sweep = sw, fn: Any = fn, it: LinInterp = it, ctx: dict[str, Any] = ctx) -> dict[str, Any]:
            sysb, _incl, _excl = mk_system(it, "strict")
            props = []
            for prio in (2, 3, 1):
                p = mk_prop(it, tag=f"p{prio}", shapes=[(1, 1, 1)])
                p.fields["priority"] = prio
                props.append(p)
            ctx["want"] = sorted(props, key=lambda p: -p.fields["priority"])
            so = sw.self_obj()
            assert so is not None
            so.fields["_component_buckets"] = {"ids": list(props)}
            over: dict[str, Any] = {}
            for k, v in sw.entry_extra.items():
                if isinstance(v, list):
                    over[k] = list(props)       # the bucket handed to the target sweep
                elif v == OWN and not isinstance(v, bool):
                    over[k] = 0                 # asking actor below every proposal
            return sw.enter(it, sysb, so, **over)

        def post(res: Any, ctx: dict[str, Any] = ctx) -> Any:
            seq = res[0] if isinstance(res, tuple) and len(res) == 1 else None
            if not isinstance(seq, (list, tuple)):
                return ("shape", f"the proposal loop iterates {seq!r}")
            got = [x.fields.get("priority") if isinstance(x, Obj) else x for x in seq]
            if len(seq) != 3 or any(a is not b for a, b in zip(seq, ctx["want"])):
                return ("bad", [f"a bucket with priorities (2, 3, 1) is swept in the order {got}, not from the "
                                "highest to the lowest priority: higher-priority bounds would not be in force when "
                                "a lower-priority preference is clamped"])
            return None

        outs = it.explore(visit, make, post)
        _report_orderings(run, "C04.DESC", fn, outs, "the sweep visits proposals in descending priority order")
        if not outs:
            raise AnalysisError(f"{fn.qual}: the iterable of the proposal loop could not be evaluated")


# ---------------------------------------------------------------------------------------------
# seeded controls, located by structure in the tree under analysis (whole-source replacements, so
# they survive renamed locals, rewritten control flow, keyword arguments and extracted helpers)
# ---------------------------------------------------------------------------------------------
def _is_name(n: ast.AST, ident: str | None) -> bool:
    return isinstance(n, ast.Name) and n.id == ident


def _scope(prog: Program, sw: Sweep) -> list[ast.AST]:
    """Loop body of the sweep plus the bodies of the private helpers it reaches (same module)."""
    out: list[ast.AST] = list(sw.loop.body)
    for h in reach(prog, sw.fn)[1:]:
        out.extend(h.node.body)
    return out


def structural_controls(prog: Program) -> list[tuple[str, str, str, str, str]]:  # noqa: C901
    out: list[tuple[str, str, str, str, str]] = []

    def add(name: str, module: str, edits: list[tuple[ast.AST, str]], rule: str) -> None:
        src = prog.module(module).source
        if edits:
            out.append((name, module, src, splice(src, edits), rule))
        else:  # site not found in this shape of the code: reported as skipped by run_controls
            out.append((name, module, "\0site not located\0", "", rule))

    def compares(nodes: list[ast.AST]) -> list[ast.Compare]:
        return [n for s in nodes for n in walk_no_nested(s) if isinstance(n, ast.Compare)]

    swc, sws = calc_sweep(prog), stat_sweep(prog)
    mat_src = prog.module(MAT).source

    # 1. the lower edge of the zone counts as inside the zone
    ov = bounds_fn(prog, "overlap")
    edits: list[tuple[ast.AST, str]] = []
    lower_alias: set[str] = set()  # locals that hold the zone's lower edge
    for n in walk_no_nested(ov.node):
        if isinstance(n, ast.Assign) and len(n.targets) == 1:
            tv = list(zip(n.targets[0].elts, n.value.elts)) if isinstance(n.targets[0], ast.Tuple) and isinstance(
                n.value, ast.Tuple) and len(n.targets[0].elts) == len(n.value.elts) else [(n.targets[0], n.value)]
            for t, v in tv:
                if isinstance(t, ast.Name) and isinstance(v, ast.Attribute) and v.attr == "lower":
                    lower_alias.add(t.id)

    def is_lower_edge(y: ast.AST) -> bool:
        return (isinstance(y, ast.Attribute) and y.attr == "lower") or (isinstance(y, ast.Name) and y.id in lower_alias)

    for c in compares(list(ov.node.body)):
        for i, a, _op, b in compare_pairs(c):
            for x, y in ((a, b), (b, a)):
                if _is_name(x, ov.params[0]) and is_lower_edge(y) and not edits:
                    t = flip_strict(c, i)
                    if t:
                        edits.append((c, t))
    if not edits:  # the "strictly inside the zone" test lives in a helper: any value against a lower edge
        for h in reach(prog, ov):
            for c in compares(list(h.node.body)):
                for i, a, _op, b in compare_pairs(c):
                    for x, y in ((a, b), (b, a)):
                        if isinstance(x, ast.Name) and isinstance(y, ast.Attribute) and y.attr == "lower" and not edits:
                            t = flip_strict(c, i)
                            if t:
                                edits.append((c, t))
    add("zone edge treated as inside", BOUNDS, edits, "C04.KEEP")

    # 2. the priority cut of get_status loses / gains the equal priority
    edits = []
    prio_names = {k for k, v in sws.base.items() if v == OWN and not isinstance(v, bool)} | {sws.entry.params[2]}
    for c in compares(_scope(prog, sws) + [sws.loop.iter] + list(sws.pro)):
        for i, a, _op, b in compare_pairs(c):
            for x, y in ((a, b), (b, a)):
                if isinstance(x, ast.Attribute) and x.attr == "priority" and isinstance(y, ast.Name) and y.id in prio_names and not edits:
                    t = flip_strict(c, i)
                    if t:
                        edits.append((c, t))
    add("priority cut moved by one", MAT, edits, "C04.SIB")

    # 3. the report sweep narrows the lower bound with the wrong running bound
    edits = []
    for n in (n for s in sws.loop.body for n in walk_no_nested(s)):
        if isinstance(n, ast.Call) and _is_name(n.func, "max") and not edits:
            hit = [a for a in n.args if _is_name(a, sws.L)]
            edits.append((hit[0], sws.U) if hit else (n.func, "min"))
    add("report sweep narrows with the wrong bound", MAT, edits, "C04.SIB")

    # 4. the distance test points the other way
    edits = []
    scope_c = _scope(prog, swc)
    arith = {t.id for st in scope_c for n in walk_no_nested(st) if isinstance(n, ast.Assign)
             and isinstance(n.value, ast.BinOp) for t in n.targets if isinstance(t, ast.Name)}  # distances held in locals

    def is_arith(side: ast.AST) -> bool:
        return any(isinstance(x, ast.BinOp) for x in ast.walk(side)) or (isinstance(side, ast.Name) and side.id in arith)

    for c in compares(scope_c):
        if len(c.ops) == 1 and not edits and is_arith(c.left) and is_arith(c.comparators[0]):
            t = mirror(c, 0)
            if t:
                edits.append((c, t))
    add("tie test flipped", MAT, edits, "C04.TIE")

    # 5. adjust_to_bounds forgets the report's exclusion zone
    ab = report_cls(prog).methods["adjust_to_bounds"]
    cl = bounds_fn(prog, "clamp")
    edits = []
    for n in walk_no_nested(ab.node):
        if isinstance(n, ast.Call) and ast.unparse(n.func).split(".")[-1] == cl.name and not edits:
            arg = positional(n, cl.params).get(cl.params[3])
            if arg is not None:
                edits.append((arg, "None"))
    add("adjust_to_bounds uses other bounds", BASE, edits, "C04.REPORT")

    # 6. single-point running bounds treated as a conflict
    edits = []
    for c in compares(list(swc.loop.body)):
        for i, a, _op, b in compare_pairs(c):
            if {getattr(a, "id", None), getattr(b, "id", None)} == {swc.L, swc.U} \
                    and isinstance(a, ast.Name) and isinstance(b, ast.Name) and not edits:
                t = flip_strict(c, i)
                if t:
                    edits.append((c, t))
    add("single-point bounds treated as a conflict", MAT, edits, "C04.ADOPT")

    # 7. a proposal without a preference re-clamps the inherited target
    edits = []
    for n in (n for s in swc.loop.body for n in walk_no_nested(s)):
        if isinstance(n, ast.Attribute) and n.attr == "preferred_power" and _is_name(n.value, swc.pv) \
                and isinstance(n.ctx, ast.Load):
            seg = ast.get_source_segment(mat_src, n)
            if seg:
                edits.append((n, f"({seg} or {swc.T})"))
    if not edits and swc.loop.body:
        # the preference is read inside a helper: seed the same kind of defect at the head of the
        # iteration instead (every proposal, also an empty one, moves the target)
        first = swc.loop.body[0]
        seg = ast.get_source_segment(mat_src, first)
        if seg:
            edits.append((first, f"{swc.T} = {swc.L}\n{' ' * first.col_offset}{seg}"))
    add("empty proposal re-clamps the inherited target", MAT, edits, "C04.NOOP")

    # 8. an upper-bound-only proposal is treated as a withdrawal
    ct = prog.func(CTP)
    edits = []
    for h in reach(prog, ct):
        if h.name == swc.fn.name and h.node is not ct.node:
            continue
        for n in walk_no_nested(h.node):
            if isinstance(n, ast.Expr) and isinstance(n.value, ast.Call) and isinstance(n.value.func, ast.Attribute) \
                    and n.value.func.attr == "add" and len(n.value.args) == 1 and not edits:
                a = ast.unparse(n.value.args[0])
                edits.append((n, f"if {a}.preferred_power is not None or {a}.bounds.lower is not None: "
                                 f"{ast.unparse(n)}"))
    add("upper-bound-only proposal not stored", MAT, edits, "C04.STORE")

    # 9. the old proposal of the actor is not taken out before the new one is added
    edits = []
    for h in reach(prog, ct):
        if h.name == swc.fn.name and h.node is not ct.node:
            continue
        for n in walk_no_nested(h.node):
            if isinstance(n, ast.Expr) and isinstance(n.value, ast.Call) and isinstance(n.value.func, ast.Attribute) \
                    and n.value.func.attr in ("remove", "discard") and len(n.value.args) == 1 and not edits:
                edits.append((n, "pass"))
    add("previous proposal not removed before add", MAT, edits, "C04.STORE")

    # 10. the changed / unchanged test of the result is inverted
    edits = []
    fresh = ({swc.T} if swc.fn.node is ct.node else set()) | {t.id for n in walk_no_nested(ct.node) if isinstance(n, ast.Assign) and isinstance(n.value, ast.Call)
             and isinstance(n.value.func, ast.Attribute) and n.value.func.attr == swc.fn.name
             for t in n.targets if isinstance(t, ast.Name)}  # locals that receive the sweep's result
    for by_state in (True, False):
        for h in reach(prog, ct):
            if h.name == swc.fn.name and h.node is not ct.node:
                continue
            for c in compares(list(h.node.body)):
                if len(c.ops) != 1 or not isinstance(c.ops[0], (ast.Eq, ast.NotEq)) or edits:
                    continue
                hit = any(isinstance(x, ast.Attribute) and x.attr == "_target_power" for x in ast.walk(c)) if by_state \
                    else any(isinstance(x, ast.Name) and x.id in fresh for x in (c.left, c.comparators[0]))
                if hit:
                    t = with_op(c, 0, {ast.Eq: ast.NotEq, ast.NotEq: ast.Eq})
                    if t:
                        edits.append((c, t))
    add("new target returned only when unchanged", MAT, edits, "C04.RESULT")

    # 12. a "nothing changed" short-cut on the re-evaluation path (no new proposal, caller does not insist,
    # a target is remembered): the sweep is skipped although the bucket may have changed elsewhere
    edits = []
    body = [st for st in ct.node.body if not (isinstance(st, ast.Expr) and isinstance(st.value, ast.Constant))]
    if body:
        first = body[0]
        seg = ast.get_source_segment(mat_src, first)
        me, ids, prop, _sysb, must = ct.params
        if seg:
            edits.append((first, f"if {prop} is None and not {must} and {me}._target_power.get({ids}) is not None:\n"
                                 f"{' ' * (first.col_offset + 4)}return None\n{' ' * first.col_offset}{seg}"))
    add("re-evaluation skipped when a target is remembered", MAT, edits, "C04.RESULT")

    # 13. the proposal is clipped to the system bounds of the call before it is stored
    # 14. storing a proposal throws away what the other actors of the group have proposed
    me, ids, prop, sysb_p, _must = ct.params
    mod_tree = prog.module(MAT).tree
    imp = next((n for n in mod_tree.body if isinstance(n, (ast.Import, ast.ImportFrom))
                and getattr(n, "module", None) != "__future__"), None)
    for name, text in (
        ("proposal clipped to the system bounds before it is stored",
         f"if {prop} is not None and {sysb_p}.inclusion_bounds is not None:\n"
         f"{{ind}}    {prop} = dataclasses.replace({prop}, bounds=dataclasses.replace({prop}.bounds, "
         f"lower={prop}.bounds.lower and max({prop}.bounds.lower, {sysb_p}.inclusion_bounds.lower)))\n"),
        ("storing a proposal drops the other actors' proposals",
         f"if {prop} is not None:\n{{ind}}    {me}.{BUCKETS}.pop({ids}, None)\n"),
    ):
        edits = []
        if body:
            first = body[0]
            seg = ast.get_source_segment(mat_src, first)
            if seg:
                ind = " " * first.col_offset
                edits.append((first, text.format(ind=ind) + ind + seg))
                if imp is not None and "dataclasses" not in prog.module(MAT).imports:
                    iseg = ast.get_source_segment(mat_src, imp)
                    if iseg:
                        edits.append((imp, "import dataclasses\n" + iseg))
        add(name, MAT, edits, "C04.STORE")

    # 15. the bucket of a group becomes an object of a container class of the tree
    edits = []
    try:
        cands = [v for v in bucket_values(prog, ct.cls, BUCKETS, []) if v.kind == "builtin" and v.fn.module is prog.module(MAT)]
    except AnalysisError:
        cands = []
    mine = [v for v in cands if v.fn.node is ct.node] or cands
    if mine:
        edits.append((mine[0].node, "_ControlBucket()"))
        src = prog.module(MAT).source
        out.append(("bucket kept in a container class of the tree", MAT, src,
                    splice(src, edits) + "\n\nclass _ControlBucket(set):\n    def add(self, item):\n"
                    "        if len(self) < 4:\n            super().add(item)\n", "C04.BUCKET"))
    else:
        add("bucket kept in a container class of the tree", MAT, [], "C04.BUCKET")

    # 16. the report sweep walks a remembered copy of the sorted bucket; a store invalidates it, the expiry
    # sweep (the sibling mutator) does not
    edits = []
    init = prog.resolve_method(ct.cls, "__init__") if ct.cls is not None else None
    me_s = sws.fn.params[0] if sws.fn.cls is not None and sws.fn.params and "staticmethod" not in {
        getattr(d, "id", None) for d in sws.fn.node.decorator_list} else None
    ibody = [st_ for st_ in init.node.body if not (isinstance(st_, ast.Expr) and isinstance(st_.value, ast.Constant))] \
        if init is not None and init.module is prog.module(MAT) else []
    iter_seg = ast.get_source_segment(mat_src, sws.loop.iter)
    if me_s and ibody and body and iter_seg and init is not None:
        i_first, c_first = ibody[0], body[0]
        i_seg, c_seg = ast.get_source_segment(mat_src, i_first), ast.get_source_segment(mat_src, c_first)
        if i_seg and c_seg:
            edits.append((i_first, f"{init.params[0]}._ctl_sorted = {{}}\n{' ' * i_first.col_offset}{i_seg}"))
            edits.append((sws.loop.iter, f"{me_s}._ctl_sorted.setdefault(0, {iter_seg})"))
            edits.append((c_first, f"if {prop} is not None:\n{' ' * (c_first.col_offset + 4)}{me}._ctl_sorted.pop(0, None)\n"
                                   f"{' ' * c_first.col_offset}{c_seg}"))
    add("report sweep walks a cached order that expiry does not invalidate", MAT, edits, "C04.LIVE")

    # 17. one slot per priority: storing a proposal takes out every stored proposal of the same priority,
    # whoever sent it (the key of the bucket forgets the source)
    edits = []
    for h in reach(prog, ct):
        if h.name == swc.fn.name and h.node is not ct.node:
            continue
        for n in walk_no_nested(h.node):
            if isinstance(n, ast.Expr) and isinstance(n.value, ast.Call) and isinstance(n.value.func, ast.Attribute) \
                    and n.value.func.attr == "add" and len(n.value.args) == 1 and not edits:
                a, b = ast.unparse(n.value.args[0]), ast.unparse(n.value.func.value)
                ind = " " * n.col_offset
                edits.append((n, f"for _ctl_o in list({b}):\n{ind}    if _ctl_o.priority == {a}.priority:\n"
                                 f"{ind}        {b}.discard(_ctl_o)\n{ind}{ast.unparse(n)}"))
    add("one stored proposal per priority", MAT, edits, "C04.LIVE")

    # 18. the expiry sweep "frees" a group whose bucket it has emptied: entry and remembered target gone, so
    # the re-evaluation takes the 'group never seen' exit and the last announced target stays in force
    edits = []
    drop = prog.resolve_method(ct.cls, EXPIRE) if ct.cls is not None else None
    if drop is not None and drop.module is prog.module(MAT) and len(drop.params) == 2 and drop.node.body:
        last = drop.node.body[-1]
        seg = ast.get_source_segment(mat_src, last)
        dme = drop.params[0]
        if seg and not isinstance(last, ast.Return):
            ind = " " * last.col_offset
            edits.append((last, f"{seg}\n{ind}for _ctl_k in [k for k, b in {dme}.{BUCKETS}.items() if not b]:\n"
                                f"{ind}    del {dme}.{BUCKETS}[_ctl_k]\n{ind}    {dme}._target_power.pop(_ctl_k, None)"))
    add("expiry sweep deletes the emptied bucket and forgets the target", MAT, edits, "C04.LIVE")

    # 19. the report sweep skips proposals by a clock kept in the instance; the target sweep honours them
    edits = []
    if me_s and ibody and init is not None and sws.loop.body:
        i_first, l_first = ibody[0], sws.loop.body[0]
        i_seg, l_seg = ast.get_source_segment(mat_src, i_first), ast.get_source_segment(mat_src, l_first)
        if i_seg and l_seg:
            edits.append((i_first, f"{init.params[0]}._ctl_now = 0.0\n{' ' * i_first.col_offset}{i_seg}"))
            edits.append((l_first, f"if {me_s}._ctl_now - {sws.pv}.creation_time > 60.0:\n"
                                   f"{' ' * (l_first.col_offset + 4)}continue\n{' ' * l_first.col_offset}{l_seg}"))
    add("report sweep skips proposals by age, target sweep does not", MAT, edits, "C04.SIB")

    # 11. the target sweep runs from the lowest to the highest priority
    edits = []
    for n in (n for st in list(swc.pro) + [swc.loop.iter] for n in ast.walk(st)):
        if isinstance(n, ast.Call) and not edits:
            kws = [k for k in n.keywords if k.arg == "reverse" and isinstance(k.value, ast.Constant)]
            if kws:
                edits.append((kws[0].value, repr(not kws[0].value.value)))
            elif _is_name(n.func, "reversed") and len(n.args) == 1:
                edits.append((n, "(" + ast.unparse(n.args[0]) + ")"))
    add("target sweep in ascending priority order", MAT, edits, "C04.DESC")
    return out


def run_rules(run: Run, prog: Program, tier: str = "quick") -> None:
    check_keep(run, prog)
    if not check_bucket(run, prog):
        # the bucket is an object of a class of the tree: what its methods do to the set of live proposals
        # is not something the abstract runs below may assume (they would end in "not modelled")
        return
    # what the sweeps iterate is the set of proposals in force (histories of public calls): the runs below
    # hand the sweeps a bucket and take it for granted.  If the histories cannot be read, the other rules
    # still run; the failure stands unless they report the tree anyway.
    live_error: AnalysisError | None = None
    try:
        if not check_live(run, prog):
            return
    except AnalysisError as exc:
        live_error = exc
    try:
        _sweep_rules(run, prog, tier)
    except AnalysisError:
        if live_error is not None:
            raise live_error from None
        raise
    if live_error is not None and not run.violations:
        raise live_error


def _sweep_rules(run: Run, prog: Program, tier: str) -> None:
    try:
        calc_sweep(prog)
    except NotReached as exc:
        # with a bucket for the group and system bounds in place the public method never gets to the
        # sweep: no target is computed at all (the sweep-level rules have nothing to run on)
        ct = prog.func(CTP)
        run.analysed(ct.qual)
        run.violation("C04.RESULT", ct.qual, "calculate_target_power reaches the target sweep",
                      f"for a component group that has a bucket of proposals and system bounds, no target is "
                      f"computed: {exc}", node=ct.node, file=ct.file)
        check_report(run, prog)
        return
    check_sib(run, prog)
    check_adopt(run, prog, tier)
    check_report(run, prog)
    check_store(run, prog)
    check_order(run, prog)


def check(run: Run, prog: Program, tier: str) -> str:
    run.rule("C04.SIB", "report sweep and target sweep agree per iteration on the conflict-free "
             "domain and on their initial state; the report sweep ignores priorities <= own")
    run.rule("C04.KEEP", "zone carving never cuts an admissible value of the range")
    run.rule("C04.ADOPT", "admissible preference adopted unchanged; otherwise nearest admissible "
             "input value on its side")
    run.rule("C04.TIE", "two-sided case: the chosen zone edge is proved closer (or as close) to the "
             "preferred power by the tested distance relation")
    run.rule("C04.NOOP", "a proposal with neither power nor bounds is equivalent to no proposal")
    run.rule("C04.REPORT", "adjust_to_bounds == the manager's clamp over the report's own bounds; "
             "get_status reports the swept bounds with the system exclusion zone")
    run.rule("C04.STORE", "every proposal handed to calculate_target_power, whatever its shape, is in the "
             "bucket the sweep is run over")
    run.rule("C04.RESULT", "calculate_target_power returns the freshly computed target unless it equals the "
             "remembered one and the caller does not insist")
    run.rule("C04.DESC", "both sweeps visit the proposals in descending priority order")
    run.rule("C04.LIVE", "after any history of stores and expiry sweeps both sweeps iterate exactly the proposals in "
             "force: no other actor's proposal (same priority included) is evicted by a store, no expired one is "
             "still walked")
    run.rule("C04.BUCKET", "a group's live proposals are kept in a container of the language (set / list / dict), "
             "not in a container class of the tree whose correctness the property would then rest on")
    check_quantity_truthiness(run)
    run_rules(run, prog, tier)
    run.floor("C04.SIB", 100)
    run.floor("C04.ADOPT", 60)
    run.floor("C04.KEEP", 10)
    run.floor("C04.NOOP", 5)
    run.floor("C04.REPORT", 5)
    run.floor("C04.TIE", 2)
    run.floor("C04.STORE", 24)
    run.floor("C04.RESULT", 24)
    run.floor("C04.DESC", 2)
    run.floor("C04.BUCKET", 1)
    run.floor("C04.LIVE", 6)
    from ..engine.controls import run_controls

    def select(expect: str):
        return {"C04.KEEP": lambda r, p: check_keep(r, p), "C04.SIB": lambda r, p: check_sib(r, p),
                "C04.ADOPT": lambda r, p: check_adopt(r, p, "quick"),
                "C04.NOOP": lambda r, p: check_adopt(r, p, "quick"),
                "C04.TIE": lambda r, p: check_adopt(r, p, "quick"),
                "C04.REPORT": lambda r, p: check_report(r, p),
                "C04.STORE": lambda r, p: check_store(r, p), "C04.RESULT": lambda r, p: check_store(r, p),
                "C04.DESC": lambda r, p: check_order(r, p),
                "C04.BUCKET": lambda r, p: check_bucket(r, p),
                "C04.LIVE": lambda r, p: check_live(r, p)}[expect]

    # on a violating tree the controls are skipped by the engine; do not even try to locate their sites
    controls = [] if run.violations else structural_controls(prog)
    run_controls(run, controls, run_rules, tier, base_prog=prog, select=select)
    run.undecided("optimality over conflicting proposal sets (outside the quantifier); end-to-end "
                  "'lowest-priority preference wins' follows from the sweep overwriting the target "
                  "in descending priority order, which is the loop structure checked under C03.ORD")
    run.extra_cov["exhaustive"] = True
    return ("Order-domain abstract interpretation: the roles of both sweeps are bound by dataflow; the "
            "report sweep and the target sweep are run on the same symbolic state inside one abstract "
            "run and must agree on the conflict-free domain; adoption / nearest-admissible / no-op are "
            "post-conditions of one generic sweep iteration decided by consistency of partial "
            "preorders (no solver); tie orientation is decided from the linear fact the path tests; "
            "report/manager agreement is equality of results of the two calls inside one abstract run.")
