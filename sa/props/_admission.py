"""Shared order-domain model of BatteryManager._check_request (used by C02.ADM and C17.ACC).

The tail of _check_request (from `bounds = self._get_bounds(...)`) is comparison-only code over the
request power P and the four enforced bounds.  It is interpreted in the order domain with
  il <= el <= ZERO <= eu <= iu            (the property's consistency assumption)
and `is_close_to_zero(power)` read as `power == 0` (its tolerance is a float detail).
"""
from __future__ import annotations

import ast
from typing import Any, Callable

from ..engine.absint import Obj
from ..engine.order import Atom, OrderInterp
from ..engine.report import AnalysisError
from ..engine.resolver import FuncInfo, Program
from ..engine.util import u
from .c03 import synth

BM = "microgrid._power_distributing._component_managers._battery_manager"


class AdmInterp(OrderInterp):
    def __init__(self, prog: Program) -> None:
        super().__init__(prog, prog.module(BM))
        self.ctx: dict[str, Any] = {}

    def unknown_name(self, ident: str, node: ast.AST) -> Any:
        if ident == "is_close_to_zero":
            return ("builtin", "isclose0")
        if ident in ("OutOfBounds", "Error"):
            return ("builtin", "result", ident)
        return super().unknown_name(ident, node)

    def get_attr(self, base: Any, attr: str, node: ast.AST) -> Any:
        if isinstance(base, Obj) and base.cls == "self" and attr == "_get_bounds":
            return ("builtin", "get_bounds")
        if isinstance(base, Obj) and base.cls == "Power" and attr == "as_watts":
            return ("builtin", "as_watts", base)
        return super().get_attr(base, attr, node)

    def apply(self, fn: Any, pos: list[Any], kw: dict[str, Any], node: ast.AST) -> Any:
        if isinstance(fn, tuple) and fn and fn[0] == "builtin":
            if fn[1] == "isclose0":
                zero = self.globals.setdefault("__ZERO__", Atom("ZERO"))
                return self.cmp3(pos[0], zero) == "="
            if fn[1] == "result":
                return Obj(fn[2], **kw)
            if fn[1] == "get_bounds":
                return self.ctx["bounds"]
            if fn[1] == "as_watts":
                return fn[2].fields["atom"]
        return super().apply(fn, pos, kw, node)


def check_request_tail(prog: Program) -> tuple[FuncInfo, ast.FunctionDef]:
    fn = prog.func(f"{BM}:BatteryManager._check_request")
    body = fn.node.body
    start = None
    for i, s in enumerate(body):
        if isinstance(s, ast.Assign) and isinstance(s.value, ast.Call) and u(s.value.func) == "self._get_bounds":
            start = i
    if start is None:
        raise AnalysisError(f"{fn.qual}: `bounds = self._get_bounds(...)` not found")
    tail = body[start:]
    f = synth("check_request_tail", ["self", fn.params[1], fn.params[2]], tail, [])
    f.body = f.body[:-1] + [ast.Return(value=ast.Constant(None))]  # falls through = accepted
    ast.fix_missing_locations(f)
    return fn, f


def explore_admission(prog: Program, post: Callable[[AdmInterp, Any, dict[str, Any]], Any],
                      extra_facts: Callable[[AdmInterp, dict[str, Any]], None] | None = None):
    fn, tail = check_request_tail(prog)
    it = AdmInterp(prog)

    def make_args() -> dict[str, Any]:
        zero = it.globals["__ZERO__"] = Atom("ZERO")
        il, el, eu, iu, P = Atom("incl_lower"), Atom("excl_lower"), Atom("excl_upper"), Atom("incl_upper"), Atom("P")
        it.assume("<=", il, el)
        it.assume("<=", el, zero)
        it.assume("<=", zero, eu)
        it.assume("<=", eu, iu)
        adjust = it.choose(2, "adjust_power") == 1
        bounds = Obj("PowerBounds", inclusion_lower=il, exclusion_lower=el, exclusion_upper=eu, inclusion_upper=iu)
        it.ctx = {"bounds": bounds, "P": P, "adjust": adjust, "il": il, "el": el, "eu": eu, "iu": iu, "zero": zero}
        if extra_facts is not None:
            extra_facts(it, it.ctx)
        req = Obj("Request", power=Obj("Power", atom=P), adjust_power=adjust, component_ids=Obj("ids"))
        return {"self": Obj("self"), fn.params[1]: req, fn.params[2]: Obj("pairs")}

    outs = it.explore(tail, make_args, lambda res: post(it, res, it.ctx))
    return fn, outs
