"""Shared order-domain model of BatteryManager._check_request (used by C02.ADM and C17.ACC).

The *whole* of _check_request is interpreted (not a textual tail of it), so the position of the
`bounds = self._get_bounds(...)` / `power = request.power.as_watts()` statements, annotations on them,
introduced locals and private helpers the comparison was extracted into do not matter:

  * the request's `component_ids` is a concrete list: known ids / empty / an id without a cache
    (three input shapes; the last two only exercise the validation prefix, which answers `Error`);
  * the call of the method that aggregates the enforced PowerBounds from the component data
    (`_get_bounds`, bound by role: see bounds_source) yields the record of the four symbolic enforced
    bounds (and the run's log notes whether its argument is the `pairs_data` parameter object);
  * any other private method called on `self` is resolved in BatteryManager and interpreted;
  * the order facts are  il <= el <= ZERO <= eu <= iu  (the property's consistency assumption) and
    `is_close_to_zero(power)` is read as `power == 0` (its tolerance is a float detail).

Code the order domain cannot give a meaning to raises AnalysisError (fail closed).
"""
from __future__ import annotations

import ast
import copy
from typing import Any, Callable

from ..engine.absint import Obj
from ..engine.order import Atom, OrderInterp
from ..engine.report import AnalysisError
from ..engine.resolver import FuncInfo, Program

BM = "microgrid._power_distributing._component_managers._battery_manager"
MANAGER = "BatteryManager"
GET_BOUNDS = "_get_bounds"
RESULT_CLASSES = ("OutOfBounds", "Error")
NEG = "neg:"


class AdmInterp(OrderInterp):
    def __init__(self, prog: Program) -> None:
        super().__init__(prog, prog.module(BM))
        self.ctx: dict[str, Any] = {}
        self.manager = prog.cls(f"{BM}:{MANAGER}")
        self.source = bounds_source_or_none(prog)   # None: the record is built inside the request check

    def call(self, e: ast.Call) -> Any:
        if self.source is None and _callee_last(e) == "PowerBounds" and self.module_stack[-1].name == BM:
            # the aggregation over the component data is not order-only code: its result is the symbolic
            # record (that it aggregates the pairs parameter is C17.AGG / C02.ADM's term extraction)
            self.log.append(("get_bounds", True))
            return self.ctx["bounds"]
        return super().call(e)

    def unknown_name(self, ident: str, node: ast.AST) -> Any:
        if ident == "is_close_to_zero":
            return ("builtin", "isclose0")
        if ident in RESULT_CLASSES:
            return ("builtin", "result", ident)
        if ident in ("any", "all", "frozenset"):
            return ("builtin", ident)
        return super().unknown_name(ident, node)

    def get_attr(self, base: Any, attr: str, node: ast.AST) -> Any:
        if isinstance(base, Obj) and base.cls == "Power" and attr not in base.fields:
            if attr == "as_watts":
                return ("builtin", "as_watts", base)
            if attr == "base_value":           # Quantity.base_value: the same float
                return base.fields["atom"]
        return super().get_attr(base, attr, node)

    def compare_values(self, op: ast.cmpop, a: Any, b: Any, node: ast.AST) -> Any:
        # a literal zero is the ZERO of the order facts (`power < 0`); other literals are not order-only
        def lift(v: Any) -> Any:
            if isinstance(v, (int, float)) and not isinstance(v, bool) and v == 0:
                return self.globals.setdefault("__ZERO__", Atom("ZERO"))
            return v
        if isinstance(a, Atom) or isinstance(b, Atom):
            a, b = lift(a), lift(b)
        return super().compare_values(op, a, b, node)

    # ------------------------------------------------------------ negation / abs of an order atom
    # `-x` of an atom is the atom `neg:x`, kept in step with the facts about x: the order between two negated
    # atoms (ZERO is its own negation) is the mirrored order of the atoms (-x < -y  iff  y < x); between a
    # negated and a plain atom nothing but the consequences of their signs is known, so the run forks.
    # `abs(x)` is the case split x >= 0 -> x, x < 0 -> -x.  (An asymmetric exclusion zone is then visible:
    # a test on abs(power) against one bound says nothing about the bound of the other side.)
    def _zero(self) -> Atom:
        return self.globals.setdefault("__ZERO__", Atom("ZERO"))

    def _neg(self, a: Atom) -> Atom:
        if a.name == "ZERO":
            return a
        return Atom(a.name[len(NEG):]) if a.name.startswith(NEG) else Atom(NEG + a.name)

    def unaryop(self, op: ast.unaryop, v: Any, node: ast.AST) -> Any:
        if isinstance(op, ast.USub) and isinstance(v, Atom):
            return self._neg(v)
        if isinstance(op, ast.UAdd) and isinstance(v, Atom):
            return v
        return super().unaryop(op, v, node)

    def builtin(self, name: str, pos: list[Any], kw: dict[str, Any], node: ast.AST) -> Any:
        if name == "abs" and len(pos) == 1 and not kw and isinstance(pos[0], Atom):
            return pos[0] if self.cmp3(pos[0], self._zero()) in (">", "=") else self._neg(pos[0])
        return super().builtin(name, pos, kw, node)

    def cmp3(self, a: Any, b: Any, label: str = "") -> str:
        na, nb = self.aname(a), self.aname(b)
        neg_a, neg_b = na.startswith(NEG), nb.startswith(NEG)
        if (neg_a or neg_b) and na != nb:
            if (neg_a or na == "ZERO") and (neg_b or nb == "ZERO"):
                rel = super().cmp3(self._neg(Atom(nb)), self._neg(Atom(na)), label)   # mirrored
                self.state.add(rel, na, nb)
                if not self.state.consistent():
                    from ..engine.absint import Infeasible
                    raise Infeasible()
                return rel
            # one negated, one plain: fix both signs first, then whatever order the signs leave open
            zero = self._zero()
            if na != "ZERO":
                self.cmp3(a, zero)
            if nb != "ZERO":
                self.cmp3(b, zero)
        return super().cmp3(a, b, label)

    def sort_items(self, items: list[Any], reverse: bool, node: ast.AST) -> list[Any]:
        try:
            return super().sort_items(items, reverse, node)
        except AnalysisError:
            return list(items)          # opaque ids: whichever order; the code only tests membership per id

    def binop(self, op: ast.operator, a: Any, b: Any, node: ast.AST) -> Any:
        # set algebra over the (opaque) requested ids / known ids, e.g. `set(ids) - caches.keys()`
        def items(v: Any) -> list[Any] | None:
            return list(v) if isinstance(v, (list, tuple)) else list(v.keys()) if isinstance(v, dict) else None
        x, y = items(a), items(b)
        if x is not None and y is not None and isinstance(op, (ast.Sub, ast.BitAnd, ast.BitOr)):
            ky = {self.key(v) for v in y}
            if isinstance(op, ast.Sub):
                return [v for v in x if self.key(v) not in ky]
            if isinstance(op, ast.BitAnd):
                return [v for v in x if self.key(v) in ky]
            return x + [v for v in y if self.key(v) not in {self.key(w) for w in x}]
        return super().binop(op, a, b, node)

    def obj_method(self, base: Obj, attr: str, node: ast.AST) -> Any:
        if base.cls == MANAGER:
            m = self.prog.resolve_method(self.manager, attr)
            if m is not None and self.source is not None and m.node is self.source.node:
                return ("builtin", "get_bounds")
            if m is None or not attr.startswith("_"):
                raise AnalysisError(f"attribute self.{attr} not modelled")
            decos = {d.id for d in m.node.decorator_list if isinstance(d, ast.Name)}
            if "property" in decos:
                return self.call_func(m, [base], {})
            if "staticmethod" in decos:
                return ("static", m)
            return ("bound", m, base)
        return super().obj_method(base, attr, node)

    def apply(self, fn: Any, pos: list[Any], kw: dict[str, Any], node: ast.AST) -> Any:
        if isinstance(fn, tuple) and fn and fn[0] == "builtin":
            if fn[1] == "isclose0":
                zero = self.globals.setdefault("__ZERO__", Atom("ZERO"))
                return self.cmp3(pos[0], zero) == "="
            if fn[1] == "result":
                return Obj(fn[2], **kw, **{f"_{i}": v for i, v in enumerate(pos)})
            if fn[1] == "get_bounds":
                arg = pos[0] if pos else next(iter(kw.values()), None)
                self.log.append(("get_bounds", arg is self.ctx.get("pairs")))
                return self.ctx["bounds"]
            if fn[1] == "as_watts":
                return fn[2].fields["atom"]
            if fn[1] in ("any", "all"):
                vals = [self.truth(v, node) for v in self.iterate(pos[0], node)]
                return any(vals) if fn[1] == "any" else all(vals)
            if fn[1] == "frozenset":
                return list(self.iterate(pos[0], node)) if pos else []
        if isinstance(fn, tuple) and fn and fn[0] == "static":
            m = fn[1]
            self.module_stack.append(m.module)
            try:
                return self.call_node(m.node, self.bind_args(m.node, pos, kw))
            finally:
                self.module_stack.pop()
        return super().apply(fn, pos, kw, node)


def _callee_last(c: ast.Call) -> str:
    return ast.unparse(c.func).split(".")[-1]


def reach(prog: Program, start: FuncInfo, depth: int = 3) -> list[FuncInfo]:
    """`start` and the private methods of its class it calls (through `self.` / `cls.` / the class name),
    transitively up to `depth` calls deep."""
    cls = start.cls
    out = [start]
    if cls is None:
        return out
    frontier = [start]
    for _ in range(depth):
        nxt = []
        for f in frontier:
            for c in ast.walk(f.node):
                if isinstance(c, ast.Call) and isinstance(c.func, ast.Attribute) and isinstance(c.func.value, ast.Name) \
                        and c.func.value.id in ("self", "cls", cls.name) and c.func.attr.startswith("_"):
                    m = prog.resolve_method(cls, c.func.attr)
                    if m is not None and all(m.node is not o.node for o in out):
                        out.append(m)
                        nxt.append(m)
        frontier = nxt
    return out


def method_by_role(prog: Program, cls_qual: str, hint: str, pred: Callable[[FuncInfo], bool], what: str) -> FuncInfo:
    """The method of a class playing a role: the one called `hint` if it (still) satisfies `pred`, else the
    unique outermost method satisfying it (outermost: not called by another candidate).  None or several:
    AnalysisError — the role has vanished or is ambiguous."""
    cls = prog.cls(cls_qual)
    m = cls.methods.get(hint)
    if m is not None and pred(m):
        return m
    cands = [m for m in cls.methods.values() if pred(m)]
    outer = [m for m in cands if not any(o is not m and any(r.node is m.node for r in reach(prog, o)[1:]) for o in cands)]
    if len(outer) != 1:
        raise AnalysisError(f"{cls_qual}: no unique method plays the role of `{hint}` ({what}); "
                            f"candidates: {sorted(m.name for m in outer or cands)}")
    return outer[0]


def bounds_source(prog: Program) -> FuncInfo:
    """The function playing the role of `_get_bounds`: the (outermost) private BatteryManager method whose
    every result is a freshly built PowerBounds record — the enforced bounds aggregated from the
    component data.  Bound by that role; the name is only a hint."""
    from ..engine.sympath import SymUnsupported, sym_paths

    def builds_bounds(m: FuncInfo) -> bool:
        if not m.name.startswith("_") or m.name.startswith("__"):
            return False
        try:
            rets = [p.ret for p in sym_paths(m.node) if p.exit == "return"]
        except SymUnsupported:
            return False
        return bool(rets) and all(isinstance(r, ast.Call) and _callee_last(r) == "PowerBounds" for r in rets)

    return method_by_role(prog, f"{BM}:{MANAGER}", GET_BOUNDS, builds_bounds,
                          "aggregates the enforced PowerBounds from the component data")


def bounds_source_or_none(prog: Program) -> FuncInfo | None:
    """bounds_source(), or None when no method plays the role because the aggregation was inlined into the
    request check (which then builds the PowerBounds record itself)."""
    try:
        return bounds_source(prog)
    except AnalysisError:
        return None


def check_request_fn(prog: Program) -> FuncInfo:
    """The function playing the role of `_check_request`: the (outermost) BatteryManager method
    (self, request, pairs) from which an `OutOfBounds(...)` answer is built and the bounds source is
    called (or, when that helper was inlined, in which the PowerBounds record is built)."""
    src = bounds_source_or_none(prog)

    def checks(m: FuncInfo) -> bool:
        if len(m.params) != 3:
            return False
        fs = reach(prog, m)
        calls = [c for f in fs for c in ast.walk(f.node) if isinstance(c, ast.Call)]
        has_bounds = any(f.node is src.node for f in fs[1:]) if src is not None else any(
            _callee_last(c) == "PowerBounds" for c in calls)
        return has_bounds and any(_callee_last(c) == "OutOfBounds" for c in calls)

    return method_by_role(prog, f"{BM}:{MANAGER}", "_check_request", checks,
                          "answers OutOfBounds for a request checked against the aggregated bounds")


def check_request_tail(prog: Program) -> tuple[FuncInfo, ast.FunctionDef]:
    """(_check_request, the function the order domain interprets).

    The interpreted function is the complete body of _check_request (falling off its end is the
    accepting `return None`); the name is historical."""
    fn = check_request_fn(prog)
    if len(fn.params) != 3:
        raise AnalysisError(f"{fn.qual}: expected (self, request, pairs_data), found {fn.params}")
    f = ast.FunctionDef(
        name="check_request",
        args=ast.arguments(posonlyargs=[], args=[ast.arg(arg=p) for p in fn.params], kwonlyargs=[],
                           kw_defaults=[], defaults=[]),
        body=copy.deepcopy(fn.node.body) + [ast.Return(value=ast.Constant(None))],
        decorator_list=[], type_params=[])
    ast.fix_missing_locations(f)
    return fn, f


def reached_bounds(out: Any) -> bool:
    """Did this abstract path get as far as reading the enforced bounds?"""
    return any(isinstance(e, tuple) and e and e[0] == "get_bounds" for e in out.log)


def bounds_from_pairs(out: Any) -> bool:
    """Every `_get_bounds(x)` of the path was given the `pairs_data` parameter object."""
    seen = [e for e in out.log if isinstance(e, tuple) and e and e[0] == "get_bounds"]
    return bool(seen) and all(e[1] for e in seen)


ID_SHAPES = ("known ids", "no ids", "unknown id")


def explore_admission(prog: Program, post: Callable[[AdmInterp, Any, dict[str, Any]], Any],
                      extra_facts: Callable[[AdmInterp, dict[str, Any]], None] | None = None):
    fn, body = check_request_tail(prog)
    it = AdmInterp(prog)

    def make_args() -> dict[str, Any]:
        zero = it.globals["__ZERO__"] = Atom("ZERO")
        il, el, eu, iu, P = Atom("incl_lower"), Atom("excl_lower"), Atom("excl_upper"), Atom("incl_upper"), Atom("P")
        it.assume("<=", il, el)
        it.assume("<=", el, zero)
        it.assume("<=", zero, eu)
        it.assume("<=", eu, iu)
        adjust = it.choose(2, "adjust_power") == 1
        shape = ID_SHAPES[it.choose(len(ID_SHAPES), "component_ids")]
        bounds = Obj("PowerBounds", inclusion_lower=il, exclusion_lower=el, exclusion_upper=eu, inclusion_upper=iu)
        pairs = Obj("pairs")
        it.ctx = {"bounds": bounds, "P": P, "adjust": adjust, "il": il, "el": el, "eu": eu, "iu": iu, "zero": zero,
                  "pairs": pairs, "ids": shape}
        if extra_facts is not None:
            extra_facts(it, it.ctx)
        bid = Obj("battery_id")
        ids = [] if shape == "no ids" else [bid]
        caches = {} if shape == "unknown id" else {it.key(bid): Obj("cache")}
        req = Obj("Request", power=Obj("Power", atom=P), adjust_power=adjust, component_ids=ids)
        return {fn.params[0]: Obj(MANAGER, _battery_caches=caches), fn.params[1]: req, fn.params[2]: pairs}

    outs = it.explore(body, make_args, lambda res: post(it, res, it.ctx))
    if not any(reached_bounds(o) for o in outs):
        raise AnalysisError(f"{fn.qual}: no abstract path reads the enforced bounds")
    return fn, outs
