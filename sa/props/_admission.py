"""Shared order-domain model of BatteryManager._check_request (used by C02.ADM and C17.ACC).

The *whole* of _check_request is interpreted (not a textual tail of it), so the position of the
`bounds = self._get_bounds(...)` / `power = request.power.as_watts()` statements, annotations on them,
introduced locals and private helpers the comparison was extracted into do not matter:

  * the request's `component_ids` is a concrete list: known ids / empty / an id without a cache
    (three input shapes; the last two only exercise the validation prefix, which answers `Error`);
  * the call of the method that aggregates the enforced PowerBounds from the component data
    (`_get_bounds`, bound by role: see bounds_source) yields the record of the four symbolic enforced
    bounds (and the run's log notes whether its argument is the `pairs_data` parameter object);
  * any other private method called on `self` is resolved in BatteryManager and interpreted;
  * the order facts are  il <= el <= ZERO <= eu <= iu  (the property's consistency assumption) and
    `is_close_to_zero(power)` is read as `power == 0` (its tolerance is a float detail).

Code the order domain cannot give a meaning to raises AnalysisError (fail closed).
"""
from __future__ import annotations

import ast
import copy
from typing import Any, Callable

from ..engine.absint import Obj
from ..engine.order import Atom, OrderInterp
from ..engine.report import AnalysisError
from ..engine.resolver import FuncInfo, Program

BM = "microgrid._power_distributing._component_managers._battery_manager"
MANAGER = "BatteryManager"
GET_BOUNDS = "_get_bounds"
RESULT_CLASSES = ("OutOfBounds", "Error")


class AdmInterp(OrderInterp):
    def __init__(self, prog: Program) -> None:
        super().__init__(prog, prog.module(BM))
        self.ctx: dict[str, Any] = {}
        self.manager = prog.cls(f"{BM}:{MANAGER}")
        self.source = bounds_source(prog)

    def unknown_name(self, ident: str, node: ast.AST) -> Any:
        if ident == "is_close_to_zero":
            return ("builtin", "isclose0")
        if ident in RESULT_CLASSES:
            return ("builtin", "result", ident)
        if ident in ("any", "all", "frozenset"):
            return ("builtin", ident)
        return super().unknown_name(ident, node)

    def get_attr(self, base: Any, attr: str, node: ast.AST) -> Any:
        if isinstance(base, Obj) and base.cls == "Power" and attr not in base.fields:
            if attr == "as_watts":
                return ("builtin", "as_watts", base)
            if attr == "base_value":           # Quantity.base_value: the same float
                return base.fields["atom"]
        return super().get_attr(base, attr, node)

    def compare_values(self, op: ast.cmpop, a: Any, b: Any, node: ast.AST) -> Any:
        # a literal zero is the ZERO of the order facts (`power < 0`); other literals are not order-only
        def lift(v: Any) -> Any:
            if isinstance(v, (int, float)) and not isinstance(v, bool) and v == 0:
                return self.globals.setdefault("__ZERO__", Atom("ZERO"))
            return v
        if isinstance(a, Atom) or isinstance(b, Atom):
            a, b = lift(a), lift(b)
        return super().compare_values(op, a, b, node)

    def obj_method(self, base: Obj, attr: str, node: ast.AST) -> Any:
        if base.cls == MANAGER:
            m = self.prog.resolve_method(self.manager, attr)
            if m is not None and m.node is self.source.node:
                return ("builtin", "get_bounds")
            if m is None or not attr.startswith("_"):
                raise AnalysisError(f"attribute self.{attr} not modelled")
            decos = {d.id for d in m.node.decorator_list if isinstance(d, ast.Name)}
            if "property" in decos:
                return self.call_func(m, [base], {})
            if "staticmethod" in decos:
                return ("static", m)
            return ("bound", m, base)
        return super().obj_method(base, attr, node)

    def apply(self, fn: Any, pos: list[Any], kw: dict[str, Any], node: ast.AST) -> Any:
        if isinstance(fn, tuple) and fn and fn[0] == "builtin":
            if fn[1] == "isclose0":
                zero = self.globals.setdefault("__ZERO__", Atom("ZERO"))
                return self.cmp3(pos[0], zero) == "="
            if fn[1] == "result":
                return Obj(fn[2], **kw, **{f"_{i}": v for i, v in enumerate(pos)})
            if fn[1] == "get_bounds":
                arg = pos[0] if pos else next(iter(kw.values()), None)
                self.log.append(("get_bounds", arg is self.ctx.get("pairs")))
                return self.ctx["bounds"]
            if fn[1] == "as_watts":
                return fn[2].fields["atom"]
            if fn[1] in ("any", "all"):
                vals = [self.truth(v, node) for v in self.iterate(pos[0], node)]
                return any(vals) if fn[1] == "any" else all(vals)
            if fn[1] == "frozenset":
                return list(self.iterate(pos[0], node)) if pos else []
        if isinstance(fn, tuple) and fn and fn[0] == "static":
            m = fn[1]
            self.module_stack.append(m.module)
            try:
                return self.call_node(m.node, self.bind_args(m.node, pos, kw))
            finally:
                self.module_stack.pop()
        return super().apply(fn, pos, kw, node)


def bounds_source(prog: Program) -> FuncInfo:
    """The function playing the role of `_get_bounds`: the private BatteryManager method reachable from
    _check_request (through private methods) whose result is a freshly built PowerBounds record — the
    enforced bounds aggregated from the component data.  Bound by that role; the name is only used to
    break a tie.  No such function: AnalysisError (the role has vanished)."""
    from ..engine.sympath import SymUnsupported, sym_paths

    manager = prog.cls(f"{BM}:{MANAGER}")
    start = prog.func(f"{BM}:{MANAGER}._check_request")
    seen: dict[str, FuncInfo] = {}
    frontier = [start]
    for _ in range(4):
        nxt = []
        for f in frontier:
            for c in ast.walk(f.node):
                if isinstance(c, ast.Call) and isinstance(c.func, ast.Attribute) and isinstance(c.func.value, ast.Name) \
                        and c.func.value.id in ("self", "cls", MANAGER) and c.func.attr.startswith("_"):
                    m = prog.resolve_method(manager, c.func.attr)
                    if m is not None and m.name not in seen and m.name != start.name:
                        seen[m.name] = m
                        nxt.append(m)
        frontier = nxt
    cands = []
    for m in seen.values():
        try:
            rets = [p.ret for p in sym_paths(m.node) if p.exit == "return"]
        except SymUnsupported:
            continue
        if rets and all(isinstance(r, ast.Call) and ast.unparse(r.func).split(".")[-1] == "PowerBounds" for r in rets):
            cands.append(m)
    if len(cands) > 1:
        cands = [m for m in cands if m.name == GET_BOUNDS] or cands
    if len(cands) != 1:
        raise AnalysisError(f"{start.qual}: the method aggregating the enforced PowerBounds from the component "
                            f"data is not identified ({sorted(m.name for m in cands)})")
    return cands[0]


def check_request_tail(prog: Program) -> tuple[FuncInfo, ast.FunctionDef]:
    """(_check_request, the function the order domain interprets).

    The interpreted function is the complete body of _check_request (falling off its end is the
    accepting `return None`); the name is historical."""
    fn = prog.func(f"{BM}:{MANAGER}._check_request")
    if len(fn.params) != 3:
        raise AnalysisError(f"{fn.qual}: expected (self, request, pairs_data), found {fn.params}")
    f = ast.FunctionDef(
        name="check_request",
        args=ast.arguments(posonlyargs=[], args=[ast.arg(arg=p) for p in fn.params], kwonlyargs=[],
                           kw_defaults=[], defaults=[]),
        body=copy.deepcopy(fn.node.body) + [ast.Return(value=ast.Constant(None))],
        decorator_list=[], type_params=[])
    ast.fix_missing_locations(f)
    return fn, f


def reached_bounds(out: Any) -> bool:
    """Did this abstract path get as far as reading the enforced bounds?"""
    return any(isinstance(e, tuple) and e and e[0] == "get_bounds" for e in out.log)


def bounds_from_pairs(out: Any) -> bool:
    """Every `_get_bounds(x)` of the path was given the `pairs_data` parameter object."""
    seen = [e for e in out.log if isinstance(e, tuple) and e and e[0] == "get_bounds"]
    return bool(seen) and all(e[1] for e in seen)


ID_SHAPES = ("known ids", "no ids", "unknown id")


def explore_admission(prog: Program, post: Callable[[AdmInterp, Any, dict[str, Any]], Any],
                      extra_facts: Callable[[AdmInterp, dict[str, Any]], None] | None = None):
    fn, body = check_request_tail(prog)
    it = AdmInterp(prog)

    def make_args() -> dict[str, Any]:
        zero = it.globals["__ZERO__"] = Atom("ZERO")
        il, el, eu, iu, P = Atom("incl_lower"), Atom("excl_lower"), Atom("excl_upper"), Atom("incl_upper"), Atom("P")
        it.assume("<=", il, el)
        it.assume("<=", el, zero)
        it.assume("<=", zero, eu)
        it.assume("<=", eu, iu)
        adjust = it.choose(2, "adjust_power") == 1
        shape = ID_SHAPES[it.choose(len(ID_SHAPES), "component_ids")]
        bounds = Obj("PowerBounds", inclusion_lower=il, exclusion_lower=el, exclusion_upper=eu, inclusion_upper=iu)
        pairs = Obj("pairs")
        it.ctx = {"bounds": bounds, "P": P, "adjust": adjust, "il": il, "el": el, "eu": eu, "iu": iu, "zero": zero,
                  "pairs": pairs, "ids": shape}
        if extra_facts is not None:
            extra_facts(it, it.ctx)
        bid = Obj("battery_id")
        ids = [] if shape == "no ids" else [bid]
        caches = {} if shape == "unknown id" else {it.key(bid): Obj("cache")}
        req = Obj("Request", power=Obj("Power", atom=P), adjust_power=adjust, component_ids=ids)
        return {fn.params[0]: Obj(MANAGER, _battery_caches=caches), fn.params[1]: req, fn.params[2]: pairs}

    outs = it.explore(body, make_args, lambda res: post(it, res, it.ctx))
    if not any(reached_bounds(o) for o in outs):
        raise AnalysisError(f"{fn.qual}: no abstract path reads self.{it.source.name}(...)")
    return fn, outs
