"""Command line: one property check per invocation (quick/thorough), plus helpers."""
from __future__ import annotations

import importlib
import json
import os
import sys
from pathlib import Path

from .engine.report import VERIF, AnalysisError, Run, run_guarded
from .engine.resolver import Program


def available() -> list[str]:
    out = []
    for p in sorted((VERIF / "sa" / "props").glob("c[0-9][0-9].py")):
        out.append(p.stem.upper())
    return out


def run_property(prop_id: str, tier: str) -> int:
    seed = int(os.environ.get("VERIF_SEED", "0") or 0)

    def body() -> int:
        mod = importlib.import_module(f"sa.props.{prop_id.lower()}")
        run = Run(prop_id, tier, seed)
        prog = Program()
        from .engine.report import load_known_findings, match_known

        known = load_known_findings()
        try:
            explanation = mod.check(run, prog, tier)
        except AnalysisError as exc:
            # A later rule that cannot read the code must not mask what earlier rules already decided: constructs
            # that were reported stay reported (exit 1); only a run without any report fails closed (exit 2).
            if not [v for v in run.violations if match_known(known, prop_id, v) is None]:
                raise
            print(f"  (ANALYSIS-ERROR after {len(run.violations)} report(s), rules after it were not evaluated: {exc})")
            run.note(f"analysis stopped early: {exc}")
            return run.finish(f"analysis stopped early after reporting: {exc}")
        unlisted = [v for v in run.violations if match_known(known, prop_id, v) is None]
        # (a listed known finding is shared by the base tree and every mutant: it does not stand in the sweep's way)
        if (tier == "thorough" and not unlisted and hasattr(mod, "run_rules")
                and not os.environ.get("VERIF_SELFTEST") and os.environ.get("VERIF_SWEEP", "1") != "0"):
            from .engine.mutate import sweep

            res = sweep(run, prop_id, prog)
            run.extra_cov["sensitivity_sweep"] = res
            if res.get("mutants"):
                print(f"  sensitivity sweep: {res['mutants']} single-point mutants of {res['functions']} analysed "
                      f"functions: {res['rejected']} rejected, {res['failed_closed']} failed closed, "
                      f"{res['accepted']} accepted (listed in the evidence)")
        return run.finish(explanation)

    return run_guarded(prop_id, body)


def explain(path: str) -> int:
    data = json.loads(Path(path).read_text())
    print(f"property {data['property']}  rule {data['rule']}: {data.get('rule_text', '')}")
    print(f"  at {data.get('where')}  in {data['function']}")
    print(f"  construct: {data['construct']}")
    print(f"  {data['message']}")
    for step in data.get("path", []):
        print(f"    {step}")
    if data.get("extra"):
        print("  extra:", json.dumps(data["extra"], indent=1, default=str))
    print("re-running the property check on the current tree:")
    return run_property(data["property"], data.get("tier", "quick"))


def main(argv: list[str]) -> int:
    if not argv:
        print(__doc__)
        print("available:", " ".join(available()))
        return 2
    cmd = argv[0]
    tier = os.environ.get("VERIF_TIER", "quick")
    if "--tier" in argv:
        tier = argv[argv.index("--tier") + 1]
    if tier not in ("quick", "thorough"):
        print(f"unknown tier {tier}")
        return 2
    if cmd == "list":
        print(" ".join(available()))
        return 0
    if cmd == "explain":
        return explain(argv[1])
    if cmd == "selftest":
        from .selftest import main as st_main

        return st_main(argv[1:])
    if cmd == "all":
        worst = 0
        for pid in available():
            rc = run_property(pid, tier)
            worst = max(worst, rc)
        return worst
    pid = cmd.upper()
    if pid not in available():
        print(f"ANALYSIS-ERROR property={pid} no checker module sa/props/{pid.lower()}.py")
        return 2
    return run_property(pid, tier)
