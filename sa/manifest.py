"""Generates /verif/MANIFEST.json from the table below:  /venv/bin/python -m sa.manifest"""
from __future__ import annotations

import json
from pathlib import Path

VERIF = Path(__file__).resolve().parents[1]
BASELINE = ("cd /repo && /venv/bin/python -m pytest -ra -q -p no:cacheprovider --timeout=900 "
            "--continue-on-collection-errors tests")

# property -> (technique, level text, level note, design ref)
CLAIMS: dict[str, tuple[str, str, str, str]] = {
    "C10": (
        "exception-aware CFG path rules (must-pass-through, never-reaches, who-may-call) over "
        "Actor/BackgroundService and all subclasses",
        "Static path analysis of the parsed source: decides on every control-flow path (including "
        "exception kinds Exception / CancelledError / other BaseException at each await) that a "
        "normal return or cancellation never loops back to _run(), that an Exception loops back "
        "iff the restart-limit guard allows it with exactly one increment and the delay, that "
        "_run/_run_loop have a single caller, that stop() cancels before waiting and wait() "
        "collects every task error, and that every subclass override keeps that discipline. "
        "Structural necessary conditions of the behaviour; timing is not decided.",
        "Trusted: CPython/asyncio exception semantics as frozen in sa/engine/cfg.py; logging calls "
        "do not raise; context managers do not swallow exceptions; statement-granular CFG.",
        "DESIGN.md §2 C10"),
}

# clauses added in session 5 (round 6 of seeded defects and the repairs F19-F24); appended to the claim text
EXTRA: dict[str, str] = {
    "C01": " The collection of battery groups handed to the allocation holds each group at most once (dataflow to the statements that fill it).",
    "C03": " Zero tests with a tolerance are modelled with their tolerances; nothing but the proposals and the system bounds feeds the target computation.",
    "C04": " After an expiry sweep the re-evaluation returns the target of a sweep over what is left; a test of remembered state made by only one of the two sweeps is reported.",
    "C05": " Expressions are values: no operator of the builder API mutates an operand's token store; operand streams are keyed by engine identity through an injective naming map; both build() methods replay every token kind; the emitted value is the read of the evaluation stack.",
    "C06": " A round whose inputs carry different timestamps never returns without the awaited synchronisation, whatever other flags say.",
    "C07": " _window_end has no writer besides the constructor and the per-tick advance in any statement form; a batched sweep advances once per tick; whatever pairs the sweep's results with sources iterates the snapshot the sweep iterated, never the live registry after the await.",
    "C08": " The buffer and source properties a window is cut from belong to exactly one registration (fresh per add_timeseries, keyed by the source).",
    "C09": " The gap test that licenses a raw read addresses the slot that is read; MovingWindow's observers return the ring buffer's observer of the same role; the ring buffer's rejection exception cannot leave the loop that feeds the window.",
    "C13": " MetricFetcher.apply's pushed value depends only on the sample and nones_are_zeros (all other attributes left open); every push_metric reachable from build() takes build()'s own flag; both builds replay every token kind (a sample is emitted for every timestamp).",
    "C14": " No operation that is partial for some exception shape is applied to the caught exception before the hand-over of the waiting request.",
    "C15": " The excess a PV result reports is the ledger handed in by distribute_power.",
    "C16": " The (succeeded, failed) sets that reach the trackers are the command's outcome: disjoint by construction and unfiltered by tracker-side state.",
    "C17": " C02's table and ledger rules of the distribution are re-issued for the clause that an admitted power can be distributed without entering an exclusion zone.",
    "C18": " Every received record replaces the cached one; no path of one iteration leaves the loop over the working batteries; the pool SoC is bounded above by 100 on every path.",
    "C19": " The sample handed on is one of the two received samples whole; a meter is primary of a device kind only if dedicated to it; only the timestamp catch-up loop reads the fallback stream in a cycle; a primary that was not requested is recorded only where everything it measures is requested.",
    "C20": " The only thing ever sent is a sample of the receive loop's current message, handed to the fan-out once; the registry's channels do not replay.",
}

CLAIMS["C13"] = (
    "NaN-domain abstract interpretation of every FormulaStep.apply / MetricFetcher.apply AST "
    "(fork-and-replay over undecided comparisons), plus guard-shape rules",
    "Abstract interpretation of the parsed source over {NaN, inf, finite-symbolic}: for every step "
    "class and every subset of its operands being NaN, all abstract paths push NaN and none "
    "raises (division by a possibly-zero operand is a raise); MetricFetcher.apply is interpreted "
    "for None/NaN/inf/valid x nones_are_zeros; the evaluator's NaN/inf -> None mapping, flag "
    "forwarding in the builders and send-every-sample in the engine loop are guard/path rules. "
    "Exhaustive over the abstract domain for the steps defined in the tree; it decides "
    "propagation of missing values per operator, not float rounding.",
    "Trusted: IEEE-754/CPython float facts encoded in sa/engine/nandomain.py (NaN comparisons "
    "false, x/0 raises, builtin max/min argument-order behaviour); overflow of finite operands "
    "ignored.",
    "DESIGN.md §2 C13")

CLAIMS["C09"] = (
    "qualifier (typestate) inference aligned/raw over OrderedRingBuffer with interprocedural "
    "private-parameter obligations; dominance/path rules on update(), window(), MovingWindow.at",
    "Decides two structural necessary conditions of the sliding-map behaviour on every path of the "
    "parsed source: (NORM) buffer time bounds, gap boundaries, datetime arguments of the private "
    "slot-arithmetic methods and the operands of the emptiness guard are on the slot grid; (VALID) "
    "update() rejects too-old samples before any mutation, window() clamps, checks emptiness and "
    "fills gaps before returning, MovingWindow.at range-checks both ends (exact forms) before "
    "every buffer read; (GAP) every gap recorded by update() starts no later than the first "
    "unwritten slot and _fill_gaps writes only inside [0, len(window)]; MovingWindow.at reads the raw storage "
    "only for a slot established to lie outside every gap; slot counts divide durations exactly (no floored "
    "float quotient). It does NOT decide the consistency of the incrementally maintained gap list / "
    "count_valid with the data over all histories (an inductive data-structure invariant).",
    "Trusted: aligned ± k·period is aligned; the qualifier rules in sa/props/c09.py; statement-"
    "granular CFG.",
    "DESIGN.md §2 C09")

CLAIMS["C11"] = (
    "abstract interpretation (fork-and-replay) of _calculate_target_power over a symbolic "
    "stored-target / new-or-unchanged domain; term-shape and who-may-construct rules",
    "Abstract interpretation of the parsed source over proposal kind x stored target per group x "
    "new/unchanged result per recalculation: on every abstract path the returned request is the "
    "sum of both groups' current targets and the second-computed group's bounds are the system "
    "bounds shifted by the first group's current target; _calculate_shifted_bounds shifts both "
    "inclusion bounds alike; requests are built only from that result; the bounds tracker "
    "stores before recomputing; regular reports use op-shifted bounds. In-bounds of the sum is "
    "the documented composition with C03.ENV, each link machine-checked. Timing not decided.",
    "Trusted: the modelled contract of Matryoshka.calculate_target_power/get_target_power (None = "
    "unchanged or no proposals), read from source; Quantity truthiness is a None test.",
    "DESIGN.md §2 C11")

CLAIMS["C15"] = (
    "flow-sensitive term normal forms (accounting identity) + exception-aware, flag-sensitive CFG "
    "path rules (failure totality, set complementarity, send/await discipline)",
    "Decides on the parsed source: (ID) for every Success/PartialFailure constructed by the battery "
    "and PV managers the polynomial normal form of succeeded+failed+excess, with reaching "
    "definitions inlined and constant-only fields folded, equals request.power; (FAIL) every "
    "exceptional exit of task.result() — Exception family and CancelledError — is caught and "
    "books failed power and failed components exactly once while the success path books neither "
    "(boolean flag idiom tracked path-sensitively); (SETS) complementarity by construction; "
    "(ALL) one set_power per allocation, timed-out calls cancelled and awaited before results "
    "are read. The numeric content of the allocations is C01's business, not decided here.",
    "Trusted: unit wrappers are value-preserving; exception model of sa/engine/cfg.py; logging "
    "does not raise.",
    "DESIGN.md §2 C15")

CLAIMS["C01"] = (
    "ledger-discipline analysis: cells and mirror/complement ledgers discovered from dataflow, "
    "per-suite paired-update check with polynomial normal forms, residual liveness on the CFG, "
    "provenance / sign-mirror / dual-branch term rules",
    "Decides necessary structural conditions of conservation on the parsed source: in every "
    "statement suite of the three allocation functions Δcells == Δmirror == -Δcomplement (so the "
    "invariant mirror = Σcells, complement = request - Σcells is preserved by every statement); a "
    "complement ledger decremented in a loop is consumed afterwards; the returned remainder is "
    "that ledger threaded through top-up and split; the supply path negates request, every cell "
    "and the remainder, and its bounds are the dual of the consume bounds; the API map is the "
    "distribution. It does NOT decide the numeric shares (sign of each set-point, |remainder| <= "
    "|request|).",
    "Trusted: the algebraic oracle (invariant preserved iff paired per suite); cells = _Power.power "
    "fields / float dict entries as discovered and printed in the evidence.",
    "DESIGN.md §2 C01")
CLAIMS["C02"] = (
    "term-shape rules on caps/minimum powers/SoC headroom + guard-dominance rules on the CFGs of "
    "the allocation loop, greedy top-up and per-inverter split",
    "Decides the cap/guard discipline the bounds property needs: top-up increments are min(upper - "
    "power, …) of the same cell; caps are min(Σ inverter incl, battery incl) and minimum powers "
    "max(battery excl, min inverter excl); non-zero inverter set-points are guarded by excl <= "
    "remaining and equal min(incl, remaining); SoC headroom is clamped at zero per direction and "
    "every non-zero allocation is control-dependent on that set's own availability ratio; the "
    "admission check dominates the distribution. The numeric range of proportional shares is not "
    "decided.",
    "Trusted: same cell discovery as C01; exact textual shape of the four min/max definitions is "
    "compared after whitespace normalisation (a reordering of min/max arguments is tolerated).",
    "DESIGN.md §2 C02")

CLAIMS["C03"] = (
    "order-domain abstract interpretation (partial-preorder facts, three-way fork-and-replay) of "
    "_bounds.py and of the sweep's prologue + inductive step; effect / sibling / path rules",
    "Abstract interpretation of the parsed source over the finite domain of weak orderings of the "
    "symbolic inputs: clamp_to_bounds and adjust_exclusion_bounds are decided for every ordering "
    "consistent with L <= U, el <= 0 <= eu (exhaustive); the _calc_target_power sweep is decided by "
    "induction — the prologue establishes and one generic iteration with every proposal shape "
    "preserves `system bounds contain running bounds and target; target zero or outside the zone` "
    "— hence for any number of proposals. History-freedom (no instance state; recomputed whenever "
    "a bucket exists), arrival-order independence (sorted by the proposals' own lexicographic "
    "order; <, ==, hash on the same key), latest-per-actor replacement and expiry are "
    "effect/sibling/path rules. Complete for comparison-only code: any weak ordering is realised "
    "by reals.",
    "Trusted: Quantity truthiness/isclose facts re-read from the installed source each run; the "
    "interpreter's semantics of the Python subset (sa/engine/absint.py, order.py); quick tier uses "
    "the structurally checked independence of target part and bounds part of an iteration.",
    "DESIGN.md §2 C03")

CLAIMS["C04"] = (
    "order-domain abstract interpretation: sibling agreement of the two sweeps inside one abstract "
    "run, adoption / nearest / no-op post-conditions by preorder consistency; normal-form tie rule; "
    "call provenance",
    "On the parsed source, for every weak ordering of the symbolic inputs: one iteration of the "
    "report sweep (get_status) and of the target sweep map the same state to the same running "
    "bounds on the conflict-free domain; zone carving never cuts an admissible value; an "
    "admissible preference becomes the target unchanged, an inadmissible one the nearest admissible "
    "input value on its side; a proposal with neither power nor bounds leaves the target unchanged "
    "and the bounds changed only by the idempotent carving; the two-sided tie is decided by "
    "distance to the preference (polynomial normal form); _Report.adjust_to_bounds is the same "
    "clamp over the report's own fields. Together with the descending-priority overwrite order "
    "(C03.ORD) this is the structure behind 'lowest-priority preference wins inside higher-"
    "priority bounds'. Optimality over conflicting sets is outside the quantifier.",
    "Trusted: as C03; 'admissible' = inside the range after carving the open zone, zero only when "
    "asked for exactly (the code's and the report's semantics).",
    "DESIGN.md §2 C04")

CLAIMS["C14"] = (
    "exception-aware CFG path rules: guard exactness, await-freedom of the critical section "
    "(never-between), handler totality, who-may-call / who-may-write",
    "Decides on every path of the parsed source of the request loop, the synchronous registration "
    "function and the completion handler: distribute_power runs only via _process_request, which "
    "always registers the task and its completion callback; the in-flight guard is exactly "
    "membership in the registry and no await lies between receiving a request, the guard and the "
    "bookkeeping (asyncio interleaves only at awaits); the pending slot is only overwritten with "
    "the incoming request; the handler reaches the pending/clear decision on the normal and every "
    "Exception path, pops and starts the pending request and clears the marker only when nothing "
    "is pending; everything is keyed by the frozenset of component ids. Liveness beyond these "
    "structural progress conditions (event-loop fairness) is not decided.",
    "Trusted: cooperative scheduling of asyncio; done-callbacks run from the loop, not inside "
    "_run's synchronous sections; statement-granular CFG.",
    "DESIGN.md §2 C14")

CLAIMS["C07"] = (
    "linear forms modulo the period per return path (alignment), CFG exactly-once path rules "
    "(advance), provenance rules (shared timestamp)",
    "Decides on the parsed source: for each return path of _calculate_window_end, with the path "
    "facts on `elapsed = (now - align_to) % period`, window_end - align_to is a whole number of "
    "periods, window_end lies in (now, now + 2 periods] and the hand-aligned first timer tick "
    "coincides with it; _window_end has exactly two writers and the per-tick advance is exactly "
    "one period, exactly once, after the gather and before any raise/break, with a timer that "
    "triggers all missed ticks; every series of a tick is resampled with self._window_end and "
    "emits it unchanged. Timer lateness and wall-clock behaviour are not decided.",
    "Trusted: x % p in [0, p); exact datetime arithmetic; frequenz.channels.Timer semantics of "
    "TriggerAllMissed.",
    "DESIGN.md §2 C07")
CLAIMS["C08"] = (
    "resolved-callee + term-shape rules on the relevance window; who-may-call / guard-dominance on "
    "the sample filter; who-may-write on the buffer",
    "Decides on the parsed source: both window edges use the function `bisect` resolves to "
    "(bisect_right) keyed by the sample timestamp (left edge exclusive at T - age, right edge "
    "inclusive at T) and the slice is taken in buffer order; the age term is T - max(period, input "
    "period or period) * max_data_age; samples reach the buffer only from the receive loop under "
    "`value is not None and not isnan` and add_sample stores every sample; the function is called "
    "iff the relevant set is non-empty; the buffer is a bounded right-appended deque; the input "
    "period is only estimated after excluding now <= sampling_start. The numeric buffer length is "
    "not decided.",
    "Trusted: bisect.bisect == bisect_right (stdlib); time-ordered input (the property's "
    "quantifier).",
    "DESIGN.md §2 C08")

CLAIMS["C05"] = (
    "partial evaluation of the shunting-yard decision list over the literal precedence table "
    "(shift/reduce matrix), table/repr/branch sibling rules, abstract interpretation of steps and "
    "of the builder's deque effects",
    "Decides the compiler structure on the parsed source: the full shift/reduce matrix of "
    "push_oper over {+,-,*,/,(,),max,min,consumption,production}, obtained by constant-folding "
    "its ordered decisions with the literal table, is algebraically legal (must-reduce / must-"
    "shift cells fixed, re-association cells free), parentheses shift/discard correctly and the "
    "loop continues after a reduce; every table key is pushed as the step class whose __repr__ is "
    "that key and the tokenizer's operators have precedences; every operator step computes "
    "first-pushed OP last-pushed with exactly one result; the higher-order builder produces "
    "( X ) op Y with Y an atom or ( Y' ) for several shapes of Y'; the evaluator applies all steps "
    "in order on a fresh stack and requires one residual. Operator-precedence parsing is "
    "determined by the pairwise relation, so this decides grouping for every formula; float "
    "rounding and malformed strings are not decided.",
    "Trusted: the legality matrix (sa/props/c05.py) and the float semantics of nandomain.py.",
    "DESIGN.md §2 C05")

CLAIMS["C06"] = (
    "exactly-once / must-precede CFG path rules, timestamp provenance, loop-shape rules on the "
    "first-run synchronisation, shared fallback-synchronisation rules",
    "Decides on the parsed source: every input is fetched once per round and all fetches are "
    "awaited (ALL_COMPLETED, no filter); along every path of fetch_next/_fetch_next/"
    "fetch_next_with_fallback the primary stream is received exactly once and no step receives; "
    "the emitted timestamp derives only from fetched samples and the steps are evaluated after it "
    "is fixed; the first-run synchronisation drains every stream of every lagging group up to the "
    "latest first timestamp, errors on overshoot and clears the flag only at the end; the fallback "
    "synchronisation never returns a sample from another timestamp; the three-phase zip receives "
    "every phase each round and drains the phases that are behind max(the three timestamps) before it "
    "builds the sample from the three (then equally stamped) samples. Behaviour under receiver overflow is "
    "not decided.",
    "Trusted: once aligned, synchronous input streams stay aligned under one-receive-per-round; "
    "cooperative scheduling.",
    "DESIGN.md §2 C06")
CLAIMS["C19"] = (
    "abstract interpretation of the source-selection function over all outcome combinations; "
    "exception-discipline rules incl. catchability of the handler expression; CFG dominance rules",
    "Decides on the parsed source: fetch_next_with_fallback returns the primary iff it is valid or no "
    "synchronised fallback sample exists, the fallback otherwise, and the fallback's next sample "
    "when the primary errors (all abstract outcomes enumerated); every receive() in MetricFetcher "
    "is guarded by a handler that names a catchable class (two documented terminal sites); the "
    "fallback is started lazily, only when not running and the primary is invalid by the shared "
    "predicate or failed; the fallback synchronisation keeps every sample it reads, tests 'primary "
    "older' on every call and advances only the fallback; a sample read straight from the fallback stream "
    "reaches a round only on a path that consulted the synchronisation state or compared a timestamp, or the "
    "consumer (FormulaEvaluator.apply) re-aligns whenever its inputs' timestamps differ; the fallback formula "
    "reads the term's own metric and the fallback selection agrees with the component graph's meter "
    "definitions; the fallback receiver has the default capacity. The length of the start-up delay is not decided.",
    "Trusted: Python evaluates an except clause's expression only when an exception reaches it; "
    "frequenz.channels ReceiverError hierarchy.",
    "DESIGN.md §2 C19")

CLAIMS["C16"] = (
    "three-valued partial evaluation of the validity predicates on their CFGs; conjunction / "
    "guard-shape / sibling rules; term rules on the back-off",
    "Decides on the parsed source: for each disqualifying fact (stale, invalid component or relay "
    "state, critical error, NaN capacity; stale / invalid state / critical error for the inverter) "
    "the predicate testing it returns False on every path on which the fact holds (everything else "
    "unknown); each stream's health flag is the conjunction of all its predicates and WORKING/"
    "UNCERTAIN is returned only with both flags; message handlers record the timestamp and reset "
    "their own timer, each timer branch judges and clears its own stream, and every state-"
    "changing branch reaches the change detection; notifications are sent only for detected "
    "changes; the back-off is min on the first failure, unchanged while blocked, min(2*last, max) "
    "when expired, reset on every success, applied only when not NOT_WORKING; uncertain components "
    "only as fallback. Clock/timer races are not decided.",
    "Trusted: the frozen atom table binding facts to conditions and the frozen operational-state "
    "sets (sa/props/c16.py); logging does not raise.",
    "DESIGN.md §2 C16")

CLAIMS["C18"] = (
    "polynomial normal forms of the loop-body accumulations (weighted-mean pattern, shared "
    "weight, homogeneity degree, coefficient sign), clamp idiom, guard-dominance, sibling rules",
    "Decides on the parsed source: the SoC accumulators are Σ w·s and Σ w with the shared weight w "
    "= capacity·(upper − lower) and s = (soc − lower)/(upper − lower)·100 clamped per battery to "
    "[0,100]; capacity is Σ w/100 with the same weight; numerator and denominator are homogeneous "
    "of degree 1 in capacity (scale invariance), s is non-decreasing in soc on both branches, the "
    "mean is not computed for a zero total; only working batteries are iterated, absent or "
    "incomplete batteries are skipped before any accumulator / sentinel update and the result is "
    "None iff none qualified; NaN metrics are dropped by the fetcher; the working set is reported ∩ "
    "calculator batteries at both sites and metrics of batteries that stop working are evicted "
    "before the set is replaced. Range and monotonicity follow from these shapes under capacity >= "
    "0 and lower <= upper.",
    "Trusted: the quantifier's assumptions (non-negative weights); exact textual forms of the clamp "
    "idioms enumerated in sa/props/c18.py.",
    "DESIGN.md §2 C18")

CLAIMS["C17"] = (
    "table/sibling extraction of the two bounds aggregations into normalised aggregation terms "
    "(identity or fixed lattice lemmas) + order-domain abstract interpretation of membership => "
    "admission",
    "Decides on the parsed source: the advertised aggregation (PowerBoundsCalculator.calculate) and the "
    "enforced one (BatteryManager._get_bounds) have identical inclusion terms Σ_g max/min(battery "
    "aggregate, Σ inverter); the advertised exclusion terms Σ_g max/min(…) dominate the enforced "
    "max/min(Σ…, Σ…) by the lemma table; a group's minimum power is max(b, min_i x_i) <= its share; "
    "both sides aggregate batteries with the same function, count each group once and read the "
    "whole group; the calculator's positional metric tables agree with the PowerBounds fields; and "
    "for every weak ordering of the symbolic power and bounds consistent with those relations, "
    "SystemBounds.__contains__(P) and P != 0 imply that _check_request admits P for both adjust "
    "modes (exhaustive); and every float reduction that feeds a bound on either side (and in the shared battery "
    "aggregation) is the exactly rounded, order-independent math.fsum, so that the two sides arrive at the same "
    "float. Equality of the run-time data of the two sides is assumed by the property.",
    "Trusted: the lattice lemmas listed in the evidence; interpreter semantics; is_close_to_zero read "
    "as equality with zero.",
    "DESIGN.md §2 C17")

CLAIMS["C20"] = (
    "table extraction with a naming rule, sibling agreement of dispatch tables, never-between "
    "(await) path rules, who-may-write rules",
    "Decides on the parsed source: every entry of the four extractor tables reads the message "
    "field named like its metric (X_PHASE_n -> x_per_phase[n-1]) and the category dispatch of the "
    "extractor lookup and of the validators agree; process_msg sends one Sample(message timestamp, "
    "extractor(message)) to every sender of every pair and the pairs come from one request item; "
    "no await lies between taking a message from the API receiver and creating its independent "
    "fan-out task; API receivers are created only when absent and never removed, stream tasks are "
    "only replaced by cancel-then-register; unknown ids change nothing, the duplicate scan "
    "dominates the append with no await in between, the resampling actor's subscribe is "
    "idempotent and get_or_create creates only when absent. Relative order of fan-out tasks of "
    "consecutive messages and overflow behaviour are not decided.",
    "Trusted: asyncio cancellation is delivered only at awaits; frequenz.channels Broadcast "
    "delivers in send order.",
    "DESIGN.md §2 C20")

CLAIMS["C12"] = (
    "table/sibling extractors over the classification predicates and the emission grammar of the "
    "generators; CFG path rules on dfs — structural necessary conditions only",
    "Claimed narrowly. Decides on the parsed source: the three sibling predicates that separate "
    "consumers from devices, the graph's is_*_chain predicates and producer + pool-backed kinds "
    "name the same chain kinds; the four is_*_meter predicates share their conjunct set (METER, not "
    "the grid meter, non-empty successors, all successors of the kind's leaf) and each chain is "
    "leaf-or-meter; primary/fallback pairing and meter fallback treat the four kinds separately; "
    "dfs stops at the first match, marks visited first and recurses over all successors; every "
    "sum-emitting loop pushes one metric per term with an operator between terms, nones_are_zeros "
    "is `category != METER` (or the constant it has for the loop's kind), grid power ranges over "
    "every measurable grid successor. It does NOT decide that these traversals yield the true "
    "totals on every valid topology (the balance identity over all graphs).",
    "Trusted: the frozen kind table (pv, chp searched; battery, ev_charger pool-backed) and the "
    "enumerated constant idioms for nones_are_zeros.",
    "DESIGN.md §2 C12")

PENDING_REASON = ("no static check is registered for this property yet in this revision of the "
                  "machinery (planned rules are in DESIGN.md §2); nothing is claimed for it")

NOT_APPLICABLE: dict[str, str] = {}


# what the second session changed in HOW each property is decided (the rules themselves are listed in
# level_claimed.text from the evidence)
_COMMON = ("; as built: rules are stated per symbolic path of the unit of behaviour with private helpers "
           "executed in line, roles bound by dataflow (private anchors by role, names as hints), in-memory "
           "seeded controls and a single-point-mutation sensitivity sweep (thorough tier)")
TECH_AS_BUILT = {pid: _COMMON for pid in (
    "C01", "C02", "C05", "C06", "C07", "C08", "C09", "C10", "C12", "C13", "C14", "C15", "C16", "C18", "C19", "C20")}
TECH_AS_BUILT.update({pid: ("; as built: the analysed methods are interpreted abstractly with private helpers "
                            "called (field-less self / actor model), roles bound by dataflow, structural in-memory "
                            "controls and a sensitivity sweep (thorough tier)") for pid in ("C03", "C04", "C11", "C17")})


def build() -> dict:
    props = [json.loads(l)["id"] for l in (VERIF / "properties.jsonl").read_text().splitlines() if l.strip()]
    checks = []
    for pid in props:
        if pid not in CLAIMS:
            continue
        tech, text, note, ref = CLAIMS[pid]
        text = text + EXTRA.get(pid, "")
        # the rules as built (session 2 added clauses; DESIGN.md §7.7): taken from the evidence the check wrote
        try:
            ev = json.loads((VERIF / "evidence" / f"{pid}.json").read_text())
            rules = ev["coverage"].get("rules", {})
            listed = "; ".join(f"{rid}: {' '.join(str(r.get('text', '')).split())}" for rid, r in rules.items() if r.get("text"))
            if listed:
                text = text + " Rules decided on every run (as built, see DESIGN.md §7.2/§7.7): " + listed + "."
            und = ev["coverage"].get("not_decided") or []
            if und:
                text = text + " Not decided: " + "; ".join(" ".join(str(x).split()) for x in und) + "."
        except (OSError, KeyError, ValueError):
            pass
        checks.append({
            "property_id": pid,
            "quick_cmd": f"./check {pid} --tier quick",
            "thorough_cmd": f"./check {pid} --tier thorough",
            "evidence_file": f"evidence/{pid}.json",
            "replay_cmd_template": "./check explain {path}",
            "engine": "sa",
            "level_claimed": {"category": "other", "text": text, "design_ref": ref},
            "level_note": note,
            "technique": "static analysis: " + tech + TECH_AS_BUILT.get(pid, ""),
        })
    na = []
    for pid in props:
        if pid in CLAIMS:
            continue
        na.append({"property_id": pid, "reason": NOT_APPLICABLE.get(pid, PENDING_REASON)})
    return {
        "version": 1,
        "setup_cmd": "true",
        "hooks": {
            "guard": "FREQUENZ_SDK_VERIF",
            "enable": "none needed: the checks read /repo's source with ast; no instrumentation "
                      "was added to the repository (guard name reserved, unused)",
            "baseline_off_cmd": BASELINE,
            "source_commits": [],
            "add_only": True,
        },
        "engines": [{
            "name": "sa",
            "path": "sa/",
            "serves_properties": sorted(CLAIMS),
            "kind_free_text": "repository-specific static analysers on Python's ast: resolver "
                              "(classes/MRO/callers), exception-aware CFG with await and finally "
                              "instantiation, symbolic term normal forms, order-domain abstract "
                              "interpreter, table/sibling extractors, symbolic path walker with "
                              "helper execution, AST normaliser, sensitivity sweep; no repository code is "
                              "imported or executed",
        }],
        "checks": checks,
        "not_applicable": na,
        "notes": "All checks parse /repo's current working tree on every run (stdlib ast under "
                 "/venv/bin/python). Exit 0 held / 1 VIOLATION / 2 ANALYSIS-ERROR (fail closed). "
                 "Known findings: known_findings.json (F1-F15, F18 fixed by `fix:` commits in /repo; F16 (C10) and F17 (C02) "
                 "recorded, not repaired: their checks print a KNOWN-FINDING line and exit 0). Seeded defects used to "
                 "test the checkers: seeded/ (four rounds by independent sub-agents plus the reverse patch of every "
                 "repair; seeded_retired/ holds a change that stopped being a defect after a repair). Behaviour-preserving "
                 "refactorings the checks must stay silent on: benign/ (five corpora). Three-way self-test (silent / firing / "
                 "quiet): ./check selftest.",
    }


if __name__ == "__main__":
    (VERIF / "MANIFEST.json").write_text(json.dumps(build(), indent=1) + "\n")
    print("MANIFEST.json written:", len(build()["checks"]), "checks")
