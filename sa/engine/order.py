"""E-O: order-domain abstract interpreter for comparison-only code.

Numeric inputs are symbolic atoms; the abstract state is a partial preorder over the atoms (facts
a<b, a<=b, closed transitively).  A comparison not decided by the closure forks the run three ways
(<, =, >) and adds the fact; min/max, `x or default` on Optionals, `is None`, `match` on tuples of
booleans are interpreted by the core.  Arithmetic on atoms yields opaque expressions whose
comparisons are nondeterministic two-way forks (the distance test).  Because values flowing out of
comparison-only code are atoms of the input, a post-condition `a <= r` is decided exactly by
forcing the relation inside the same abstract run.  Any weak ordering consistent with the stated
preconditions is realised by real numbers, so this is complete for such code.
"""
from __future__ import annotations

import ast
import itertools
from typing import Any, Callable

from .absint import Closure, Infeasible, Interp, Obj
from .report import AnalysisError
from .resolver import ClassInfo, FuncInfo, Module, Program


class Atom:
    def __init__(self, name: str) -> None:
        self.name = name

    def __repr__(self) -> str:
        return self.name


class Expr:
    """Opaque arithmetic over atoms (only compared nondeterministically)."""

    def __init__(self, text: str) -> None:
        self.text = text

    def __repr__(self) -> str:
        return self.text


class OrderState:
    """Partial preorder with an incrementally maintained transitive closure.

    rel[(a, b)] = 1 means a <= b is entailed, 2 means a < b is entailed."""

    def __init__(self) -> None:
        self.rel: dict[tuple[str, str], int] = {}
        self.names: set[str] = set()
        self.bad = False

    def copy(self) -> "OrderState":
        o = OrderState()
        o.rel, o.names, o.bad = dict(self.rel), set(self.names), self.bad
        return o

    def _edge(self, a: str, b: str, s: int) -> None:
        if a == b:
            if s == 2:
                self.bad = True
            return
        if self.rel.get((a, b), 0) >= s:
            return
        names = self.names
        rel = self.rel
        preds = [(x, rel[(x, a)]) for x in names if (x, a) in rel] + [(a, 1)]
        succs = [(y, rel[(b, y)]) for y in names if (b, y) in rel] + [(b, 1)]
        for x, sx in preds:
            for y, sy in succs:
                st = 2 if (s == 2 or sx == 2 or sy == 2) else 1
                if x == y:
                    if st == 2:
                        self.bad = True
                    continue
                if rel.get((x, y), 0) < st:
                    rel[(x, y)] = st
                    if st == 2 and (y, x) in rel:
                        self.bad = True
                    if st == 1 and rel.get((y, x), 0) == 2:
                        self.bad = True

    def reach(self, a: str, b: str) -> tuple[bool, bool]:
        if a == b:
            return True, False
        r = self.rel.get((a, b), 0)
        return r >= 1, r == 2

    def consistent(self) -> bool:
        return not self.bad

    def add(self, rel: str, a: str, b: str) -> None:
        self.names.update((a, b))
        if rel == "<":
            self._edge(a, b, 2)
        elif rel == "<=":
            self._edge(a, b, 1)
        elif rel == "=":
            self._edge(a, b, 1)
            self._edge(b, a, 1)
        elif rel == ">":
            self._edge(b, a, 2)
        elif rel == ">=":
            self._edge(b, a, 1)
        else:
            raise AnalysisError(f"unknown relation {rel}")

    def query(self, a: str, b: str) -> str | None:
        if a == b:
            return "="
        ab = self.rel.get((a, b), 0)
        ba = self.rel.get((b, a), 0)
        if ab == 2:
            return "<"
        if ba == 2:
            return ">"
        if ab and ba:
            return "="
        return None

    def options(self, a: str, b: str) -> list[str]:
        if self.rel.get((a, b), 0):
            return ["<", "="]
        if self.rel.get((b, a), 0):
            return ["=", ">"]
        return ["<", "=", ">"]

    def linear_extension(self) -> list[list[str]]:
        """One weak ordering (list of equivalence classes, ascending) consistent with the facts."""
        names = sorted(self.names)
        classes: list[set[str]] = []
        seen: set[str] = set()
        for n in names:
            if n in seen:
                continue
            cls = {m for m in names if self.query(n, m) == "="} | {n}
            seen |= cls
            classes.append(cls)
        reps = [sorted(c)[0] for c in classes]
        order: list[list[str]] = []
        remaining = list(range(len(classes)))
        while remaining:
            for i in remaining:
                if not any(j != i and self.reach(reps[j], reps[i])[0] for j in remaining):
                    order.append(sorted(classes[i]))
                    remaining.remove(i)
                    break
            else:
                order.append(sorted(classes[remaining.pop(0)]))
        return order


class OrderInterp(Interp):
    def __init__(self, prog: Program, module: Module) -> None:
        super().__init__()
        self.prog = prog
        self.module = module
        self.state = OrderState()
        self.module_stack: list[Module] = [module]
        self.fresh = itertools.count()

    def reset(self) -> None:
        self.state = OrderState()
        self.module_stack = [self.module]

    def snapshot(self) -> Any:
        return self.state.copy()

    # ---------------------------------------------------------------- facts
    def assume(self, rel: str, a: Any, b: Any) -> None:
        if a is None or b is None:
            return
        self.state.add(rel, self.aname(a), self.aname(b))
        if not self.state.consistent():
            raise Infeasible()

    def aname(self, v: Any) -> str:
        if isinstance(v, Atom):
            return v.name
        raise AnalysisError(f"order relation on non-atom {v!r}")

    def cmp3(self, a: Any, b: Any, label: str = "") -> str:
        """Decide a ? b, forking if the facts do not decide it."""
        na, nb = self.aname(a), self.aname(b)
        self.state.names.update((na, nb))
        got = self.state.query(na, nb)
        if got is not None:
            return got
        opts = self.state.options(na, nb)
        rel = opts[self.choose(len(opts), label or f"{na} ? {nb}")]
        self.state.add(rel, na, nb)
        if not self.state.consistent():
            raise Infeasible()
        return rel

    def entails(self, rel: str, a: Any, b: Any) -> bool:
        """Is `a rel b` implied by the facts of this abstract run? (no forking)"""
        na, nb = self.aname(a), self.aname(b)
        if na == nb:
            return rel in ("<=", "=", ">=")
        le, lt = self.state.reach(na, nb)
        ge, gt = self.state.reach(nb, na)
        return {"<=": le, "<": lt, ">=": ge, ">": gt, "=": le and ge}[rel]

    def possible(self, facts: list[tuple[str, Any, Any]]) -> bool:
        """Is there a real-number valuation satisfying the run's facts plus `facts`? (no forking)

        Complete for partial preorders: a set of <,<=,= constraints is satisfiable over the reals
        iff its closure has no strict cycle."""
        st = self.state.copy()
        for rel, a, b in facts:
            st.add(rel, self.aname(a), self.aname(b))
        return st.consistent()

    def holds(self, rel: str, a: Any, b: Any) -> bool:
        """Force and test a relation between two atoms (used for post-conditions)."""
        r = self.cmp3(a, b, f"post {a} ? {b}")
        return {"<": r == "<", "<=": r in ("<", "="), "=": r == "=", ">=": r in (">", "="),
                ">": r == ">", "!=": r != "="}[rel]

    # ---------------------------------------------------------------- domain hooks
    def truth_of(self, v: Any, node: ast.AST | None) -> bool:
        if isinstance(v, (Atom, Expr, Obj)):
            return True  # frequenz.quantities.Quantity defines no __bool__/__len__
        return super().truth_of(v, node)

    def compare_values(self, op: ast.cmpop, a: Any, b: Any, node: ast.AST) -> Any:
        if isinstance(a, Atom) and isinstance(b, Atom):
            r = self.cmp3(a, b)
            return {ast.Lt: r == "<", ast.LtE: r in ("<", "="), ast.Gt: r == ">",
                    ast.GtE: r in (">", "="), ast.Eq: r == "=", ast.NotEq: r != "="}[type(op)]
        if isinstance(a, (Atom, Expr)) and isinstance(b, (Atom, Expr)):
            # opaque arithmetic: nondeterministic outcome
            return self.choose(2, f"opaque {a!r} {type(op).__name__} {b!r}") == 1
        if (a is None) != (b is None) and isinstance(op, (ast.Eq, ast.NotEq)):
            return isinstance(op, ast.NotEq)
        return super().compare_values(op, a, b, node)

    def binop(self, op: ast.operator, a: Any, b: Any, node: ast.AST) -> Any:
        if isinstance(a, (Atom, Expr)) and isinstance(b, (Atom, Expr)):
            sym = {ast.Add: "+", ast.Sub: "-"}.get(type(op))
            if sym:
                return Expr(f"({a!r} {sym} {b!r})")
        raise AnalysisError(f"arithmetic {type(op).__name__} on {a!r}, {b!r} is not order-only")

    def unaryop(self, op: ast.unaryop, v: Any, node: ast.AST) -> Any:
        if isinstance(op, ast.USub) and isinstance(v, (Atom, Expr)):
            return Expr(f"(-{v!r})")
        if isinstance(op, ast.USub) and isinstance(v, (int, float)):
            return -v
        raise AnalysisError("unary operator not order-only")

    def builtin(self, name: str, pos: list[Any], kw: dict[str, Any], node: ast.AST) -> Any:
        if name in ("max", "min") and len(pos) >= 2 and all(isinstance(x, Atom) for x in pos):
            best = pos[0]
            for x in pos[1:]:
                r = self.cmp3(x, best)
                if (name == "max" and r == ">") or (name == "min" and r == "<"):
                    best = x
            return best
        if name == "sorted":
            items = list(self.iterate(pos[0], node))
            rev = bool(kw.get("reverse", False))
            return self.sort_items(items, rev, node)
        if name == "isinstance":
            return self.isinstance_(pos[0], pos[1], node)
        if name == "set":
            return list(self.iterate(pos[0], node)) if pos else []
        return super().builtin(name, pos, kw, node)

    def sort_items(self, items: list[Any], reverse: bool, node: ast.AST) -> list[Any]:
        def k(o: Any) -> Any:
            if isinstance(o, Obj) and "priority" in o.fields:
                return (o.fields["priority"], o.fields.get("source_id", ""))
            raise AnalysisError("sorted() of objects without a concrete priority")
        return sorted(items, key=k, reverse=reverse)

    def isinstance_(self, v: Any, cls: Any, node: ast.AST) -> bool:
        names = cls if isinstance(cls, tuple) else (cls,)
        for c in names:
            cname = c.name if isinstance(c, ClassInfo) else (c[1] if isinstance(c, tuple) else str(c))
            if isinstance(v, Obj) and v.cls == cname:
                return True
        return False

    # ---------------------------------------------------------------- names / attributes / calls
    def unknown_name(self, ident: str, node: ast.AST) -> Any:
        mod = self.module_stack[-1]
        if ident in ("max", "min", "sorted", "len", "isinstance", "set", "list", "tuple", "bool",
                     "iter", "next", "all", "any"):
            return ("builtin", ident)
        import builtins as _b

        if hasattr(_b, ident) and self.prog.resolve_name(mod, ident) is None and ident not in mod.imports:
            # any other Python builtin: never an opaque (always truthy) record — the call fails closed
            return ("builtin", ident)
        tgt = self.prog.resolve_name(mod, ident)
        if tgt is not None:
            return tgt
        ext = self.prog.external_name(mod, ident)
        if ext == "typing.cast":
            return ("builtin", "cast")
        if ext.endswith(".Power") or ident == "Power":
            return Obj("class:Power")
        if ident == "_logger":
            return Obj("logger")
        return Obj(f"ext:{ext}")

    def get_attr(self, base: Any, attr: str, node: ast.AST) -> Any:
        if isinstance(base, Obj) and base.cls == "class:Power" and attr == "zero":
            return ("builtin", "zero")
        if isinstance(base, Obj) and base.cls == "logger":
            return ("builtin", "log")
        if isinstance(base, Atom) and attr == "isclose":
            return ("builtin", "isclose", base)
        if isinstance(base, Module):
            tgt = self.prog.resolve_name(base, attr)
            if tgt is None:
                sub = (base.name + "." if base.name else "") + attr
                tgt = self.prog.modules.get(sub)
            if tgt is None:
                raise AnalysisError(f"{base.name}.{attr} not resolvable")
            return tgt
        if isinstance(base, ClassInfo):
            m = self.prog.resolve_method(base, attr)
            if m is not None:
                return m
        return super().get_attr(base, attr, node)

    def obj_method(self, base: Obj, attr: str, node: ast.AST) -> Any:
        # method of a modelled record: look the class up in the program
        for cls in self.prog.all_classes():
            if cls.name == base.cls:
                m = self.prog.resolve_method(cls, attr)
                if m is not None:
                    if any(isinstance(d, ast.Name) and d.id == "property" for d in m.node.decorator_list):
                        return self.call_func(m, [base], {})
                    return ("bound", m, base)
        raise AnalysisError(f"attribute {base.cls}.{attr} not modelled")

    def apply(self, fn: Any, pos: list[Any], kw: dict[str, Any], node: ast.AST) -> Any:
        if isinstance(fn, tuple) and fn and fn[0] == "builtin":
            if fn[1] == "zero":
                return self.globals.setdefault("__ZERO__", Atom("ZERO"))
            if fn[1] == "log":
                return None
            if fn[1] == "cast":
                return pos[1]  # typing.cast is the identity at run time
            if fn[1] == "isclose":
                other = pos[0]
                # Quantity.isclose(other, rel_tol=1e-9, abs_tol=0.0): against zero this is equality
                if isinstance(other, Atom) and other.name == "ZERO":
                    return self.cmp3(fn[2], other) == "="
                raise AnalysisError("isclose against a non-zero value is not order-only")
        if isinstance(fn, FuncInfo):
            return self.call_func(fn, pos, kw)
        if isinstance(fn, tuple) and fn and fn[0] == "bound":
            return self.call_func(fn[1], [fn[2]] + pos, kw)
        if isinstance(fn, ClassInfo):
            return self.construct(fn, pos, kw, node)
        return super().apply(fn, pos, kw, node)

    def call_func(self, fn: FuncInfo, pos: list[Any], kw: dict[str, Any]) -> Any:
        self_value = None
        if fn.cls is not None and pos:
            self_value, pos = pos[0], pos[1:]
        args = self.bind_args(fn.node, pos, kw, self_value)
        self.module_stack.append(fn.module)
        try:
            return self.call_node(fn.node, args)
        finally:
            self.module_stack.pop()

    def construct(self, cls: ClassInfo, pos: list[Any], kw: dict[str, Any], node: ast.AST) -> Any:
        fields = [s.target.id for s in cls.node.body
                  if isinstance(s, ast.AnnAssign) and isinstance(s.target, ast.Name)]
        for base in self.prog.mro(cls)[1:]:
            fields = [s.target.id for s in base.node.body
                      if isinstance(s, ast.AnnAssign) and isinstance(s.target, ast.Name)] + fields
        vals = dict(zip(fields, pos))
        vals.update(kw)
        return Obj(cls.name, **vals)

    def apply_other(self, fn: Any, pos: list[Any], kw: dict[str, Any], node: ast.AST) -> Any:
        if isinstance(fn, Obj) and fn.cls.startswith("ext:"):
            return Obj(fn.cls[4:].split(".")[-1], **kw, **{f"_{i}": v for i, v in enumerate(pos)})
        return super().apply_other(fn, pos, kw, node)

    def get_item(self, base: Any, key: Any, node: ast.AST) -> Any:
        # `timeseries.Bounds[Power]` — a generic alias of a record class
        if isinstance(base, (ClassInfo, Obj)) and not isinstance(base, dict):
            if isinstance(base, ClassInfo) or base.cls.startswith(("ext:", "class:")):
                return base
        return super().get_item(base, key, node)

    def contains(self, container: Any, item: Any, node: ast.AST) -> bool:
        if isinstance(container, Obj):
            for cls in self.prog.all_classes():
                if cls.name == container.cls:
                    m = self.prog.resolve_method(cls, "__contains__")
                    if m is not None:
                        return bool(self.call_func(m, [container, item], {}))
        return super().contains(container, item, node)

    def key(self, k: Any) -> Any:
        if isinstance(k, (Atom, Obj)):
            return id(k)
        return k
