"""Symbolic path enumeration for small (loop-free or loop-opaque) functions.

Every path through the function body is walked with an environment that maps each local name to the
*expression* it currently holds (locals are substituted away), forking on `if` / ternary / assert /
short-circuit conditions.  What a rule then sees per path is independent of the surface shape of the
code: introduced or inlined locals, early return vs if/else vs ternary, `not (a or b)` vs
`not a and not b`, statement order of independent definitions all give the same

    conds     the atomic conditions taken, canonical (`a > b` == `b < a`) with their outcome
    effects   calls / attribute writes / awaits / loops in evaluation order (substituted), each with
              the state epoch at which it happened
    reads     self-rooted attribute chains read, with the epoch of the read
    ret       the returned expression with all locals substituted (None for a bare return)

The state epoch is bumped by every call on a self-rooted receiver, every write to a self-rooted
attribute and every await: two reads of `self._x` in the same epoch see the same object.

Terms are TEXTUAL: an attribute chain read before and after a write on the same path is the same
text.  A rule that must tell the two apart uses the epochs of `reads` / `effects`; a local bound to an
expression that reads state keeps denoting the value at binding time only as long as the rule checks
the epochs (or the state is not written in between).

With `follow` (a callback call -> FunctionDef | None, see `follower()`), calls of private helpers and
of closures defined on the path are *executed on the path*: parameters are bound to the argument
expressions, the body is walked with its own environment (forking like any other code), its effects
land in the same log and the call is replaced by what the helper returned.  Helpers of any shape are
handled this way (several returns, effects, reassigned parameters, tuple results).

Nothing is executed; terms are ast expressions.  Loops are opaque (`effects` gets a 'loop' entry, the
names the body binds are havocked); `sym_block` lets a rule walk a loop body on its own.
"""
from __future__ import annotations

import ast
import copy
import os
from dataclasses import dataclass, field
from typing import Any, Iterable

from .report import AnalysisError
from .util import canon, u

PURE_SELF_METHODS: set[str] = set()


def _loop_raises(loop: ast.stmt) -> list[ast.Raise]:
    """The `raise` statements of the body of `loop` itself that no `try` of the body can catch (top-level raises only)."""
    found: list[ast.Raise] = []
    todo = list(ast.iter_child_nodes(loop))
    while todo:
        n = todo.pop()
        if isinstance(n, (ast.FunctionDef, ast.AsyncFunctionDef, ast.Lambda, ast.ClassDef, ast.Try)):
            continue
        if isinstance(n, ast.Raise):
            found.append(n)
        todo.extend(ast.iter_child_nodes(n))
    return sorted(found, key=lambda r: (getattr(r, "lineno", 0), getattr(r, "col_offset", 0)))


def _loop_returns(loop: ast.stmt) -> list[ast.Return]:
    """The `return` statements of the body of `loop` itself (not of a nested def / lambda), in source order."""
    found: list[ast.Return] = []
    todo = list(ast.iter_child_nodes(loop))
    while todo:
        n = todo.pop()
        if isinstance(n, (ast.FunctionDef, ast.AsyncFunctionDef, ast.Lambda, ast.ClassDef)):
            continue
        if isinstance(n, ast.Return):
            found.append(n)
        todo.extend(ast.iter_child_nodes(n))
    return sorted(found, key=lambda r: (getattr(r, "lineno", 0), getattr(r, "col_offset", 0)))


class SymUnsupported(AnalysisError):
    pass


@dataclass
class Effect:
    kind: str           # call | write | await | loop | raise | del
    node: ast.AST       # substituted expression (call) / (target, value) packed in a Tuple for writes
    epoch: int
    lineno: int
    orig: ast.AST | None = None

    @property
    def text(self) -> str:
        return u(self.node)


@dataclass
class Path:
    # (positive key, outcome of the key, substituted test atom, lineno, outcome of the atom as written)
    conds: list[tuple[Any, bool, ast.AST, int, bool]] = field(default_factory=list)
    effects: list[Effect] = field(default_factory=list)
    reads: list[tuple[str, int, int]] = field(default_factory=list)  # chain, epoch, lineno
    env: dict[str, ast.AST] = field(default_factory=dict)
    epoch: int = 0
    ret: ast.AST | None = None
    exit: str = ""      # return | raise | fall
    lineno: int = 0
    fresh: dict[str, int] = field(default_factory=dict)

    def fork(self) -> "Path":
        q = Path(list(self.conds), list(self.effects), list(self.reads), dict(self.env), self.epoch)
        q.fresh = dict(self.fresh)
        return q

    # ---- queries
    def outcome(self, key: Any) -> bool | None:
        for k, o, *_ in self.conds:
            if k == key:
                return o
        return None

    def calls(self, pred: Any = None) -> list[Effect]:
        return [e for e in self.effects if e.kind == "call" and (pred is None or pred(e.node))]

    def describe(self) -> list[str]:
        out = [f"line {ln}: {u(t)[:140]} is {'true' if o else 'false'}" for _k, _ko, t, ln, o in self.conds]
        out.append(f"line {self.lineno}: {self.exit} {u(self.ret) if self.ret is not None else ''}".rstrip())
        return out


def split_polarity(c: Any) -> tuple[Any, bool]:
    """canonical condition -> (positive key, polarity)."""
    if isinstance(c, tuple) and c:
        if c[0] == "not":
            k, p = split_polarity(c[1])
            return k, not p
        if c[0] == "isnot":
            return ("is", c[1]), False
        if c[0] == "!=":
            return ("==", c[1]), False
        if c[0] == "notin":
            return ("in", c[1], c[2]), False
    return c, True


def cond_key(expr: ast.AST) -> tuple[Any, bool]:
    key, pol = split_polarity(canon(expr))
    if isinstance(key, tuple) and key and key[0] == "is" and len(key[1]) == 1:
        return ("const", True), pol        # `x is x`
    if isinstance(key, tuple) and key and key[0] == "is" and "None" in key[1]:
        other = next(iter(key[1] - {"None"}))
        if other in ("True", "False") or other[:1] in "0123456789'\"[({":
            return ("const", False), pol   # a literal is never None
    return key, pol


class _Subst(ast.NodeTransformer):
    def __init__(self, env: dict[str, ast.AST]) -> None:
        self.env = env

    def visit_Name(self, node: ast.Name) -> ast.AST:  # noqa: N802
        if isinstance(node.ctx, ast.Load) and node.id in self.env:
            new = ast.copy_location(copy.deepcopy(self.env[node.id]), node)
            new._inlined = True  # type: ignore[attr-defined]  # evaluated where it was bound, not here
            return new
        return node

    def visit_Lambda(self, node: ast.Lambda) -> ast.AST:  # noqa: N802
        bound = {a.arg for a in node.args.args + node.args.kwonlyargs + node.args.posonlyargs}
        node.body = _Subst({k: v for k, v in self.env.items() if k not in bound}).visit(node.body)
        return node

    def _comp(self, node: Any) -> ast.AST:
        bound: set[str] = set()
        for g in node.generators:
            bound |= {n.id for n in ast.walk(g.target) if isinstance(n, ast.Name)}
        inner = _Subst({k: v for k, v in self.env.items() if k not in bound})
        for g in node.generators:
            g.iter = inner.visit(g.iter)
            g.ifs = [inner.visit(i) for i in g.ifs]
        if isinstance(node, ast.DictComp):
            node.key = inner.visit(node.key)
            node.value = inner.visit(node.value)
        else:
            node.elt = inner.visit(node.elt)
        return node

    visit_ListComp = visit_SetComp = visit_GeneratorExp = visit_DictComp = _comp  # noqa: N815


def _self_chain(e: ast.AST) -> str | None:
    n = e
    while isinstance(n, (ast.Attribute, ast.Subscript)):
        n = n.value
    if isinstance(n, ast.Name) and n.id == "self" and e is not n:
        return u(e)
    return None


def _self_rooted(e: ast.AST) -> bool:
    n = e
    while isinstance(n, (ast.Attribute, ast.Subscript, ast.Call)):
        n = n.value if not isinstance(n, ast.Call) else n.func
    return isinstance(n, ast.Name) and n.id == "self"


def _first_ifexp(e: ast.AST) -> ast.IfExp | None:
    """First conditional expression in evaluation order that is not inside a deferred scope."""
    stack = [e]
    while stack:
        n = stack.pop(0)
        if isinstance(n, ast.IfExp):
            inner = _first_ifexp(n.test)
            return inner if inner is not None else n
        if isinstance(n, (ast.Lambda, ast.ListComp, ast.SetComp, ast.DictComp, ast.GeneratorExp)):
            continue
        stack = list(ast.iter_child_nodes(n)) + stack
    return None


def _replace_in_place(root: ast.AST, old: ast.AST, new: ast.AST) -> ast.AST:
    if root is old:
        return new
    for parent in ast.walk(root):
        for f, v in ast.iter_fields(parent):
            if v is old:
                setattr(parent, f, new)
                return root
            if isinstance(v, list):
                for i, x in enumerate(v):
                    if x is old:
                        v[i] = new
                        return root
    return root


def _copy_replacing(root: Any, old: ast.AST, new: ast.AST) -> Any:
    """Deep copy of `root` in which the node `old` (by identity) is replaced by a copy of `new`."""
    if root is old:
        return copy.deepcopy(new)
    if isinstance(root, ast.AST):
        n = type(root)()
        for f, v in ast.iter_fields(root):
            setattr(n, f, _copy_replacing(v, old, new))
        for a in ("lineno", "col_offset", "end_lineno", "end_col_offset", "_inlined"):
            if hasattr(root, a):
                setattr(n, a, getattr(root, a))
        return n
    if isinstance(root, list):
        return [_copy_replacing(x, old, new) for x in root]
    return root


def clock_call(c: ast.Call) -> bool:
    """Calls whose result differs from one evaluation to the next (clocks): each evaluation gets its
    own symbol, so two reads of the clock are never mistaken for one value."""
    name = u(c.func)
    return name.endswith(("datetime.now", "datetime.utcnow", ".time", "time.monotonic", "time.time"))


class SymExec:
    def __init__(self, max_paths: int = 4096, pure_self_methods: Iterable[str] = (),
                 opaque: Any = clock_call, follow: Any = None) -> None:
        self.max_paths = max_paths
        self.pure = set(pure_self_methods) | PURE_SELF_METHODS
        self.opaque = opaque
        self.follow = follow          # call -> FunctionDef of a private helper to execute on the path, or None
        self.nested: dict[str, Any] = {}
        self.stack: list[int] = []
        self.followed: set[str] = set()
        self.done: list[Path] = []

    # ------------------------------------------------------------------ helper calls executed on the path
    def _target(self, call: ast.Call) -> Any:
        if getattr(call, "_inlined", False) or len(self.stack) >= 4:
            return None
        if isinstance(call.func, ast.Name) and call.func.id in self.nested:
            t = self.nested[call.func.id]
        elif self.follow is not None:
            t = self.follow(call)
        else:
            return None
        if t is None or id(t) in self.stack:
            return None
        if any(isinstance(a, ast.Starred) for a in call.args) or any(k.arg is None for k in call.keywords):
            return None
        if any(isinstance(n, (ast.Yield, ast.YieldFrom)) for n in ast.walk(t)):
            return None
        return t

    def _first_followable(self, e: ast.AST) -> tuple[ast.AST, ast.Call, Any] | None:
        """(node to replace, call, target) for the first helper call in evaluation order."""
        found: list[tuple[ast.AST, ast.Call, Any]] = []

        def walk(n: ast.AST) -> None:
            if found or isinstance(n, (ast.Lambda, ast.ListComp, ast.SetComp, ast.DictComp, ast.GeneratorExp)) \
                    or getattr(n, "_inlined", False):
                return
            for c in ast.iter_child_nodes(n):
                walk(c)
                if found:
                    return
            if isinstance(n, ast.Await) and isinstance(n.value, ast.Call):
                t = self._target(n.value)
                if t is not None and isinstance(t, ast.AsyncFunctionDef):
                    found.append((n, n.value, t))
            elif isinstance(n, ast.Call):
                t = self._target(n)
                if t is not None and not isinstance(t, ast.AsyncFunctionDef):
                    found.append((n, n, t))

        walk(e)
        return found[0] if found else None

    def _call_helper(self, p: Path, call: ast.Call, target: Any, lineno: int) -> list[tuple[Path, ast.AST | None]]:
        """Execute `target` with the (already substituted) arguments of `call` on path `p`; returns
        (path, returned expression) pairs; a path on which the helper raised has exit == 'raise'."""
        a = target.args
        names = [x.arg for x in a.posonlyargs + a.args]
        static = any(isinstance(d, ast.Name) and d.id == "staticmethod" for d in target.decorator_list)
        if names and names[0] in ("self", "cls") and not static and not (
                isinstance(call.func, ast.Name)):
            names = names[1:]
        if len(call.args) > len(names):
            return [(p, None)]
        env: dict[str, ast.AST] = dict(zip(names, call.args))
        for k in call.keywords:
            env[k.arg] = k.value  # type: ignore[index]
        defaults = dict(zip(names[len(names) - len(a.defaults):], a.defaults))
        for n, d in zip([x.arg for x in a.kwonlyargs], a.kw_defaults):
            if d is not None:
                defaults[n] = d
        for n in names + [x.arg for x in a.kwonlyargs]:
            if n not in env:
                if n not in defaults:
                    return [(p, None)]
                env[n] = defaults[n]
        for v in env.values():
            v._inlined = True  # type: ignore[attr-defined]  # evaluated at the call, not where the parameter is read
        saved_env, saved_nested = p.env, self.nested
        p.env, self.nested = env, {}
        self.stack.append(id(target))
        self.followed.add(target.name)
        body = target.body
        if body and isinstance(body[0], ast.Expr) and isinstance(body[0].value, ast.Constant) \
                and isinstance(body[0].value.value, str):
            body = body[1:]
        try:
            results = self.block(p, list(body))
        finally:
            self.stack.pop()
            self.nested = saved_nested
        out: list[tuple[Path, ast.AST | None]] = []
        for q, st in results:
            q.env = dict(saved_env)
            if st == "raise":
                out.append((q, None))
                continue
            val = q.ret if st == "return" and q.ret is not None else ast.Constant(None)
            q.ret, q.exit = None, ""
            val = copy.deepcopy(val)
            val._inlined = True  # type: ignore[attr-defined]
            out.append((q, val))
        return out

    def _fresh(self, p: Path, e: ast.AST) -> ast.AST:
        """Replace every clock call evaluated *here* (not substituted in) by a per-path fresh symbol."""
        if self.opaque is None:
            return e
        hits = [n for n in _eval_order_calls(e) if self.opaque(n)]
        for n in hits:
            name = u(n.func)
            p.fresh[name] = p.fresh.get(name, 0) + 1
            sym = ast.Name(id=f"<{name}#{p.fresh[name]}>", ctx=ast.Load())
            sym._inlined = True  # type: ignore[attr-defined]
            e = _replace_in_place(e, n, ast.copy_location(sym, n))
        return e

    # ------------------------------------------------------------------ expressions
    def _log(self, p: Path, orig: ast.AST, sub: ast.AST, lineno: int) -> None:
        for n in ast.walk(orig):
            if isinstance(n, ast.Attribute) and isinstance(n.ctx, ast.Load):
                ch = _self_chain(n)
                if ch is not None:
                    p.reads.append((ch, p.epoch, lineno))
        bump = False
        for n in _eval_order_calls(sub):
            p.effects.append(Effect("call", n, p.epoch, lineno))
            if _self_rooted(n.func) and not (isinstance(n.func, ast.Attribute) and n.func.attr in self.pure):
                bump = True
        if any(isinstance(n, ast.Await) for n in ast.walk(sub)):
            p.effects.append(Effect("await", sub, p.epoch, lineno))
            bump = True
        if bump:
            p.epoch += 1

    def ev(self, p: Path, expr: ast.AST, lineno: int, log: bool = True) -> list[tuple[Path, ast.AST]]:
        """Substitute locals, fork on ternaries; returns (path, value expression) pairs."""
        sub = _Subst(p.env).visit(copy.deepcopy(expr))
        sub = self._walrus(p, sub)
        return self._resolve(p, sub, expr, lineno, log)

    @staticmethod
    def _walrus(p: Path, e: ast.AST) -> ast.AST:
        """`(name := value)` binds `name` on the path and stands for `value` (innermost first).  Only
        for walruses that are evaluated whenever the expression is (callers pass atoms / whole values)."""
        def outer(n: ast.AST) -> list[ast.NamedExpr]:
            # walruses of a comprehension / lambda are bound per element there, not on the path
            if isinstance(n, (ast.ListComp, ast.SetComp, ast.DictComp, ast.GeneratorExp, ast.Lambda)):
                return []
            found = [n] if isinstance(n, ast.NamedExpr) else []
            for c in ast.iter_child_nodes(n):
                found.extend(outer(c))
            return found

        while True:
            hits = [n for n in outer(e) if not any(isinstance(m, ast.NamedExpr) for m in outer(n.value))]
            if not hits:
                return e
            n = hits[0]
            if isinstance(n.target, ast.Name):
                p.env[n.target.id] = n.value
            e = _copy_replacing(e, n, n.value) if e is not n else copy.deepcopy(n.value)

    def _resolve(self, p: Path, sub: ast.AST, orig: ast.AST, lineno: int, log: bool) -> list[tuple[Path, ast.AST]]:
        out: list[tuple[Path, ast.AST]] = []
        work = [(p, sub)]
        while work:
            q, e = work.pop()
            ie = _first_ifexp(e)
            if ie is None:
                hit = self._first_followable(e) if (self.follow is not None or self.nested) else None
                if hit is not None:
                    node, call, target = hit
                    for q2, val in self._call_helper(q, call, target, lineno):
                        if q2.exit == "raise" or val is None:
                            if q2.exit == "raise":
                                out.append((q2, ast.Constant(None)))
                                continue
                            # not followable after all (arity mismatch): keep the call opaque
                            call._inlined = True  # type: ignore[attr-defined]
                            work.append((q2, e))
                            continue
                        work.append((q2, _copy_replacing(e, node, val)))
                    continue
                if log:
                    self._log(q, orig, e, lineno)
                    e = self._fresh(q, e)
                out.append((q, e))
                continue
            for q2, outcome in self._test(q, ie.test, lineno, orig):
                work.append((q2, _copy_replacing(e, ie, ie.body if outcome else ie.orelse)))
        return out

    def test(self, p: Path, test: ast.AST, lineno: int, substituted: bool = False) -> list[tuple[Path, bool]]:
        """Fork on the atoms of a condition with short-circuit semantics."""
        t = test if substituted else _Subst(p.env).visit(copy.deepcopy(test))
        return self._test(p, t, lineno, test)

    def _test(self, p: Path, t: ast.AST, lineno: int, orig: ast.AST) -> list[tuple[Path, bool]]:
        if isinstance(t, ast.UnaryOp) and isinstance(t.op, ast.Not):
            return [(q, not o) for q, o in self._test(p, t.operand, lineno, orig)]
        if isinstance(t, ast.BoolOp):
            is_and = isinstance(t.op, ast.And)
            cur: list[tuple[Path, bool]] = [(p, is_and)]
            for v in t.values:
                nxt: list[tuple[Path, bool]] = []
                for q, o in cur:
                    if o != is_and:        # short-circuited already
                        nxt.append((q, o))
                    else:
                        nxt.extend(self._test(q, v, lineno, orig))
                cur = nxt
            return cur
        if isinstance(t, ast.IfExp):
            out: list[tuple[Path, bool]] = []
            for q, o in self._test(p, t.test, lineno, orig):
                out.extend(self._test(q, t.body if o else t.orelse, lineno, orig))
            return out
        # an atom (may still contain ternaries or helper calls in operands: resolve them first)
        t = self._walrus(p, t)
        out = []
        needs = _first_ifexp(t) is not None or (
            (self.follow is not None or self.nested) and self._first_followable(t) is not None)
        for q, e in self._resolve(p, t, orig, lineno, False) if needs else [(p, t)]:
            if q.exit == "raise":
                out.append((q, False))
                continue
            if needs and isinstance(e, (ast.BoolOp, ast.IfExp)) or (
                    needs and isinstance(e, ast.UnaryOp) and isinstance(e.op, ast.Not)):
                out.extend(self._test(q, e, lineno, orig))
                continue
            key, pol = cond_key(e)
            if isinstance(key, tuple) and key and key[0] == "const":
                val = key[1] == pol
                out.append((q, val))
                continue
            prev = q.outcome(key)
            if prev is not None:
                out.append((q, prev == pol))
                continue
            for o in (True, False):
                q2 = q.fork()
                q2.conds.append((key, o == pol, e, lineno, o))
                self._log(q2, ast.Constant(None), e, lineno)
                out.append((q2, o))
        return out

    # ------------------------------------------------------------------ statements
    def block(self, p: Path, stmts: list[ast.stmt]) -> list[tuple[Path, str]]:
        cur: list[tuple[Path, str]] = [(p, "next")]
        for s in stmts:
            nxt: list[tuple[Path, str]] = []
            for q, st in cur:
                if st != "next":
                    nxt.append((q, st))
                else:
                    nxt.extend(self.stmt(q, s))
            cur = nxt
            if len(cur) > self.max_paths:
                raise SymUnsupported(f"more than {self.max_paths} symbolic paths")
        return cur

    def _bind(self, p: Path, target: ast.AST, value: ast.AST, lineno: int) -> None:
        if isinstance(target, ast.Name):
            p.env[target.id] = value
        elif isinstance(target, (ast.Tuple, ast.List)):
            if isinstance(value, (ast.Tuple, ast.List)) and len(value.elts) == len(target.elts) \
                    and not any(isinstance(e, ast.Starred) for e in list(value.elts) + list(target.elts)):
                for t, v in zip(target.elts, value.elts):
                    self._bind(p, t, v, lineno)
            else:
                for i, t in enumerate(target.elts):
                    if isinstance(t, ast.Starred):
                        self._bind(p, t.value, ast.Name(id=f"<rest of {u(value)}>", ctx=ast.Load()), lineno)
                    else:
                        self._bind(p, t, ast.Subscript(value=value, slice=ast.Constant(i), ctx=ast.Load()), lineno)
        else:
            tsub = _Subst(p.env).visit(copy.deepcopy(target))
            for n in ast.walk(tsub):
                if hasattr(n, "ctx"):
                    n.ctx = ast.Load()  # type: ignore[attr-defined]
            p.effects.append(Effect("write", ast.Tuple(elts=[tsub, value], ctx=ast.Load()), p.epoch, lineno, target))
            p.epoch += 1

    def stmt(self, p: Path, s: ast.stmt) -> list[tuple[Path, str]]:  # noqa: C901
        ln = getattr(s, "lineno", 0)
        if isinstance(s, (ast.Pass, ast.Global, ast.Nonlocal, ast.Import, ast.ImportFrom)):
            return [(p, "next")]
        if isinstance(s, (ast.FunctionDef, ast.AsyncFunctionDef, ast.ClassDef)):
            p.env.pop(s.name, None)
            if not isinstance(s, ast.ClassDef) and not s.decorator_list:
                self.nested[s.name] = s   # a closure: calls of it are executed on the path
            return [(p, "next")]
        if isinstance(s, ast.Expr):
            if isinstance(s.value, ast.Constant):
                return [(p, "next")]
            return [(q, "raise" if q.exit == "raise" else "next") for q, _e in self.ev(p, s.value, ln)]
        if isinstance(s, ast.Assign):
            out = []
            for q, e in self.ev(p, s.value, ln):
                if q.exit == "raise":
                    out.append((q, "raise"))
                    continue
                for t in s.targets:
                    self._bind(q, t, e, ln)
                out.append((q, "next"))
            return out
        if isinstance(s, ast.AnnAssign):
            if s.value is None:
                return [(p, "next")]
            out = []
            for q, e in self.ev(p, s.value, ln):
                if q.exit == "raise":
                    out.append((q, "raise"))
                    continue
                self._bind(q, s.target, e, ln)
                out.append((q, "next"))
            return out
        if isinstance(s, ast.AugAssign):
            load = copy.deepcopy(s.target)
            for n in ast.walk(load):
                if hasattr(n, "ctx"):
                    n.ctx = ast.Load()  # type: ignore[attr-defined]
            out = []
            for q, e in self.ev(p, ast.BinOp(left=load, op=s.op, right=s.value), ln):
                if q.exit == "raise":
                    out.append((q, "raise"))
                    continue
                self._bind(q, s.target, e, ln)
                out.append((q, "next"))
            return out
        if isinstance(s, ast.Return):
            if s.value is None:
                p.ret, p.exit, p.lineno = None, "return", ln
                return [(p, "return")]
            out = []
            for q, e in self.ev(p, s.value, ln):
                if q.exit == "raise":
                    out.append((q, "raise"))
                    continue
                q.ret, q.exit, q.lineno = e, "return", ln
                out.append((q, "return"))
            return out
        if isinstance(s, ast.Raise):
            out = []
            for q, e in (self.ev(p, s.exc, ln) if s.exc is not None else [(p, None)]):
                q.ret, q.exit, q.lineno = e, "raise", ln
                q.effects.append(Effect("raise", e if e is not None else ast.Constant(None), q.epoch, ln))
                out.append((q, "raise"))
            return out
        if isinstance(s, ast.If):
            out = []
            for q, o in self.test(p, s.test, ln):
                if q.exit == "raise":
                    out.append((q, "raise"))
                    continue
                out.extend(self.block(q, s.body if o else s.orelse))
            return out
        if isinstance(s, ast.Assert):
            out = []
            for q, o in self.test(p, s.test, ln):
                if q.exit == "raise":
                    out.append((q, "raise"))
                    continue
                if o:
                    out.append((q, "next"))
                else:
                    q.ret, q.exit, q.lineno = ast.Name(id="AssertionError", ctx=ast.Load()), "raise", ln
                    out.append((q, "raise"))
            return out
        if isinstance(s, (ast.For, ast.AsyncFor, ast.While)):
            hdr = s.iter if isinstance(s, (ast.For, ast.AsyncFor)) else s.test
            sub = _Subst(p.env).visit(copy.deepcopy(hdr))
            self._log(p, hdr, sub, ln)
            p.effects.append(Effect("loop", sub, p.epoch, ln, s))
            bound: set[str] = set()
            for n in ast.walk(s):
                if isinstance(n, ast.Name) and isinstance(n.ctx, (ast.Store, ast.Del)):
                    bound.add(n.id)
            # a local container the body mutates in place (`acc.append(x)`) no longer has its pre-loop value either
            for n in ast.walk(s):
                if isinstance(n, ast.Call) and isinstance(n.func, ast.Attribute) and isinstance(n.func.value, ast.Name) \
                        and n.func.attr in ("append", "extend", "add", "update", "insert", "appendleft") \
                        and isinstance(p.env.get(n.func.value.id), (ast.List, ast.Set, ast.Dict, ast.ListComp, ast.SetComp)):
                    bound.add(n.func.value.id)
            for b in bound:
                p.env[b] = ast.Name(id=f"<{b}@loop{ln}>", ctx=ast.Load())
            p.epoch += 1
            out = []
            # A `return` inside the (opaque) body is an exit the function may take: one may-return path per such
            # statement, its value read with the loop-bound names havocked and without the body's guards (an
            # over-approximation; VERIF_LOOP_RETURNS=0 restores the old behaviour of dropping these exits).
            if os.environ.get("VERIF_LOOP_RETURNS", "1") != "0":
                for r in _loop_returns(s):
                    q = p.fork()
                    q.ret = None if r.value is None else _Subst(q.env).visit(copy.deepcopy(r.value))
                    q.exit, q.lineno = "return", getattr(r, "lineno", ln)
                    q.effects.append(Effect("loop-return", q.ret, q.epoch, q.lineno, r))
                    out.append((q, "return"))
            # ... and likewise a `raise` of the body that no `try` of the body encloses: a may-raise path (VERIF_LOOP_RAISES=0 off)
            if os.environ.get("VERIF_LOOP_RAISES", "1") != "0":
                for r in _loop_raises(s):
                    q = p.fork()
                    q.ret = None if r.exc is None else _Subst(q.env).visit(copy.deepcopy(r.exc))
                    q.exit, q.lineno = "raise", getattr(r, "lineno", ln)
                    q.effects.append(Effect("raise", q.ret if q.ret is not None else ast.Constant(None), q.epoch, q.lineno))
                    out.append((q, "raise"))
            out.append((p, "next"))
            return out
        if isinstance(s, (ast.With, ast.AsyncWith)):
            cur = [p]
            for item in s.items:
                nxt = []
                for q in cur:
                    for q2, e in self.ev(q, item.context_expr, ln):
                        if item.optional_vars is not None:
                            self._bind(q2, item.optional_vars, ast.Call(
                                func=ast.Attribute(value=e, attr="__enter__", ctx=ast.Load()), args=[], keywords=[]), ln)
                        nxt.append(q2)
                cur = nxt
            out = []
            for q in cur:
                out.extend(self.block(q, s.body))
            return out
        if isinstance(s, ast.Try):
            out = []
            entry = p.fork()
            normal = self.block(p, s.body)
            res: list[tuple[Path, str]] = []
            for q, st in normal:
                res.extend(self.block(q, s.orelse) if st == "next" else [(q, st)])
            bound = set()
            for b in s.body:
                for n in ast.walk(b):
                    if isinstance(n, ast.Name) and isinstance(n.ctx, (ast.Store, ast.Del)):
                        bound.add(n.id)
            for h in s.handlers:
                q = entry.fork()
                for b in bound:
                    q.env[b] = ast.Name(id=f"<{b}@try{ln}>", ctx=ast.Load())
                key = ("except", u(h.type) if h.type is not None else "BaseException", ln)
                q.conds.append((key, True, h.type if h.type is not None else ast.Constant(None), h.lineno, True))
                q.epoch += 1
                if h.name:
                    q.env[h.name] = ast.Name(id=f"<exc {u(h.type)}@{h.lineno}>", ctx=ast.Load())
                res.extend(self.block(q, h.body))
            for q, st in res:
                if s.finalbody:
                    for q2, st2 in self.block(q, s.finalbody):
                        out.append((q2, st if st2 == "next" else st2))
                else:
                    out.append((q, st))
            return out
        if isinstance(s, ast.Delete):
            for t in s.targets:
                if isinstance(t, ast.Name):
                    p.env.pop(t.id, None)
                else:
                    tsub = _Subst(p.env).visit(copy.deepcopy(t))
                    p.effects.append(Effect("del", tsub, p.epoch, ln, t))
                    p.epoch += 1
            return [(p, "next")]
        if isinstance(s, (ast.Break, ast.Continue)):
            return [(p, "break" if isinstance(s, ast.Break) else "continue")]
        raise SymUnsupported(f"line {ln}: statement kind {type(s).__name__} not supported by the symbolic walker")


def _eval_order_calls(e: ast.AST) -> list[ast.Call]:
    """Calls in (approximate) evaluation order: arguments before the call, left to right; bodies of
    lambdas are deferred (not evaluated here), comprehension bodies are included."""
    out: list[ast.Call] = []

    def walk(n: ast.AST) -> None:
        if isinstance(n, ast.Lambda) or getattr(n, "_inlined", False):
            return
        for c in ast.iter_child_nodes(n):
            walk(c)
        if isinstance(n, ast.Call):
            out.append(n)

    walk(e)
    return out


def sym_paths(fn: ast.FunctionDef | ast.AsyncFunctionDef, max_paths: int = 4096,
              pure_self_methods: Iterable[str] = (), opaque: Any = clock_call, follow: Any = None) -> list[Path]:
    """All symbolic paths through `fn` (exit in {'return', 'raise', 'fall'})."""
    body = fn.body
    if body and isinstance(body[0], ast.Expr) and isinstance(body[0].value, ast.Constant) \
            and isinstance(body[0].value.value, str):
        body = body[1:]
    se = SymExec(max_paths, pure_self_methods, opaque, follow)
    out = []
    for p, st in se.block(Path(), list(body)):
        if st == "next":
            p.exit, p.ret, p.lineno = "fall", None, getattr(fn, "end_lineno", 0) or 0
        elif st in ("break", "continue"):
            raise SymUnsupported(f"{fn.name}: {st} outside a loop")
        out.append(p)
    return out


def sym_block(stmts: list[ast.stmt], env: dict[str, ast.AST] | None = None, max_paths: int = 4096,
              follow: Any = None) -> list[tuple[Path, str]]:
    """Paths through a statement list (e.g. a loop body); statuses: next|return|raise|break|continue."""
    se = SymExec(max_paths, follow=follow)
    p = Path()
    p.env = dict(env or {})
    return se.block(p, list(stmts))


def follower(prog: Any, fn: Any, stop: Iterable[str] = ()) -> Any:
    """`follow` callback for code of `fn`: private helpers of the same class / module (never the
    anchored names in `stop`, never overridden methods) resolve to their FunctionDef."""
    from .normalize import ANCHOR_NAMES, _helper_target

    banned = set(stop) | ANCHOR_NAMES

    def follow(call: ast.Call) -> Any:
        t = _helper_target(prog, fn, call, {})
        if t is None or t.name in banned or t is fn.node:
            return None
        return t

    return follow
