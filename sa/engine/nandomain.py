"""Abstract interpreter for float code over the domain {NaN, ±inf, finite(symbolic), constants}.

Used for the formula steps (C05.STEP, C13): IEEE/CPython facts are encoded here —
comparisons with NaN are False (`!=` True), arithmetic propagates NaN, `x / 0` raises
ZeroDivisionError (also for NaN numerators), builtin `max/min` keep their first argument unless a
later one compares beyond it.  Finite values are symbolic: tests on them fork.
"""
from __future__ import annotations

import ast
import itertools
from typing import Any, Callable

from .absint import Interp, Obj, _Raise
from .report import AnalysisError


class F:
    """Abstract float."""

    _ids = itertools.count()

    def __init__(self, kind: str, expr: str, zero: bool | None = None) -> None:
        self.kind = kind  # "nan" | "inf" | "fin"
        self.expr = expr
        self.zero = zero  # for fin: known zero / known non-zero / unknown
        self.id = next(F._ids)

    def __repr__(self) -> str:
        return f"F<{self.kind}:{self.expr}>"


def nan(expr: str = "nan") -> F:
    return F("nan", expr)


class NanInterp(Interp):
    def __init__(self, self_fields: Callable[[str], list[Any]] | None = None) -> None:
        super().__init__()
        self.self_fields = self_fields
        self.order_facts: dict[tuple[int, int], int] = {}
        self.globals = {
            "max": ("builtin", "max"), "min": ("builtin", "min"), "abs": ("builtin", "abs"),
            "len": ("builtin", "len"), "float": ("builtin", "float"),
            "isnan": ("builtin", "isnan"), "isinf": ("builtin", "isinf"),
            "math": Obj("module:math"), "RuntimeError": "RuntimeError",
            "_logger": Obj("logger"),
        }

    def reset(self) -> None:
        self.order_facts = {}

    # ---------------------------------------------------------------- values
    def lift(self, v: Any) -> Any:
        if isinstance(v, bool):
            return v
        if isinstance(v, (int, float)):
            f = float(v)
            if f != f:
                return nan()
            if f in (float("inf"), float("-inf")):
                return F("inf", repr(v))
            return F("fin", repr(v), zero=(f == 0.0))
        return v

    def attr_of(self, base: Any, attr: str, node: ast.AST) -> Any:
        raise AnalysisError(f"attribute .{attr} not interpretable in NaN domain")

    def get_attr(self, base: Any, attr: str, node: ast.AST) -> Any:
        if isinstance(base, Obj) and base.cls == "module:math":
            if attr == "nan":
                return nan("math.nan")
            if attr == "inf":
                return F("inf", "math.inf")
            if attr in ("isnan", "isinf", "isclose", "fabs", "isfinite"):
                return ("builtin", attr)
            raise AnalysisError(f"math.{attr} not interpretable")
        if isinstance(base, Obj) and base.cls == "logger":
            return ("builtin", "log")
        if isinstance(base, Obj) and base.cls == "self" and attr not in base.fields:
            if self.self_fields is None:
                raise AnalysisError(f"self.{attr} read but no field domain given")
            options = self.self_fields(attr)
            base.fields[attr] = options[self.choose(len(options), f"self.{attr}")]
        return super().get_attr(base, attr, node)

    def obj_method(self, base: Obj, attr: str, node: ast.AST) -> Any:
        if base.cls == "Quantity" and attr in ("isnan", "isinf", "base_value"):
            kind = base.fields["kind"]
            if attr == "base_value":
                return {"nan": nan("q.nan"), "inf": F("inf", "q.inf"),
                        "valid": F("fin", "q.base_value")}[kind]
            return ("builtin", "const", (kind == "nan") if attr == "isnan" else (kind == "inf"))
        return super().obj_method(base, attr, node)

    def truth_of(self, v: Any, node: ast.AST | None) -> bool:
        if isinstance(v, F):
            if v.kind in ("nan", "inf"):
                return True
            return not self.is_zero(v)
        if isinstance(v, Obj):
            return True
        return super().truth_of(v, node)

    def is_zero(self, v: F) -> bool:
        if v.zero is None:
            v.zero = self.choose(2, f"{v.expr} == 0") == 1
        return v.zero

    # ---------------------------------------------------------------- operators
    def binop(self, op: ast.operator, a: Any, b: Any, node: ast.AST) -> Any:
        a, b = self.lift(a), self.lift(b)
        if not isinstance(a, F) or not isinstance(b, F):
            raise AnalysisError(f"binary operator on non-float values {a!r}, {b!r}")
        sym = {ast.Add: "+", ast.Sub: "-", ast.Mult: "*", ast.Div: "/", ast.Mod: "%",
               ast.FloorDiv: "//", ast.Pow: "**"}.get(type(op))
        if sym is None:
            raise AnalysisError(f"operator {type(op).__name__} not interpretable")
        expr = f"({a.expr} {sym} {b.expr})"
        if sym in ("/", "%", "//"):
            if b.kind == "fin" and self.is_zero(b):
                raise _Raise("ZeroDivisionError", node)
        if a.kind == "nan" or b.kind == "nan":
            return nan(expr)
        if a.kind == "inf" or b.kind == "inf":
            if sym == "/" and b.kind == "inf" and a.kind == "fin":
                return F("fin", expr, zero=True)
            return F("inf", expr)  # possibly NaN (inf - inf, 0 * inf): non-finite either way
        zero: bool | None = None
        if sym == "*":
            if a.zero is True or b.zero is True:
                zero = True
            elif a.zero is False and b.zero is False:
                zero = False
        elif sym == "/":
            zero = a.zero
        return F("fin", expr, zero=zero)

    def unaryop(self, op: ast.unaryop, v: Any, node: ast.AST) -> Any:
        v = self.lift(v)
        if isinstance(op, (ast.USub, ast.UAdd)) and isinstance(v, F):
            sign = "-" if isinstance(op, ast.USub) else "+"
            return F(v.kind, f"({sign}{v.expr})", zero=v.zero)
        raise AnalysisError("unary operator not interpretable")

    def compare_values(self, op: ast.cmpop, a: Any, b: Any, node: ast.AST) -> Any:
        a, b = self.lift(a), self.lift(b)
        if isinstance(a, F) and isinstance(b, F):
            if a.kind == "nan" or b.kind == "nan":
                return isinstance(op, ast.NotEq)
            if a is b:
                return isinstance(op, (ast.Eq, ast.LtE, ast.GtE))
            # comparison with a known zero constant refines zero-ness
            for x, y in ((a, b), (b, a)):
                if y.kind == "fin" and y.zero is True and y.expr in ("0", "0.0", "-0.0") \
                        and x.kind == "fin" and isinstance(op, (ast.Eq, ast.NotEq)):
                    z = self.is_zero(x)
                    return z if isinstance(op, ast.Eq) else not z
            # three-way order fact between two abstract values
            key = (min(a.id, b.id), max(a.id, b.id))
            if key not in self.order_facts:
                self.order_facts[key] = self.choose(3, f"{a.expr} ? {b.expr}") - 1  # -1 < , 0 =, 1 >
                rel0 = self.order_facts[key]
                lo, hi = (a, b) if a.id < b.id else (b, a)
                # keep zero-ness coherent for comparisons against a literal zero
                for x, y, r in ((lo, hi, rel0), (hi, lo, -rel0)):
                    if y.kind == "fin" and y.zero is True and x.kind == "fin":
                        if r == 0:
                            if x.zero is False:
                                from .absint import Infeasible
                                raise Infeasible()
                            x.zero = True
                        else:
                            if x.zero is True:
                                from .absint import Infeasible
                                raise Infeasible()
                            x.zero = False
            rel = self.order_facts[key]
            if a.id > b.id:
                rel = -rel
            return {ast.Lt: rel < 0, ast.LtE: rel <= 0, ast.Gt: rel > 0, ast.GtE: rel >= 0,
                    ast.Eq: rel == 0, ast.NotEq: rel != 0}[type(op)]
        return super().compare_values(op, a, b, node)

    def builtin(self, name: str, pos: list[Any], kw: dict[str, Any], node: ast.AST) -> Any:
        if name in ("max", "min"):
            if len(pos) == 1:
                pos = list(self.iterate(pos[0], node))
            if not pos:
                raise _Raise("ValueError", node)
            best = pos[0]
            for x in pos[1:]:
                better = self.compare_values(ast.Gt() if name == "max" else ast.Lt(), x, best, node)
                if better:
                    best = x
            return best
        if name == "abs" or name == "fabs":
            v = self.lift(pos[0])
            return F(v.kind, f"abs({v.expr})", zero=v.zero)
        if name == "isnan":
            v = self.lift(pos[0])
            return isinstance(v, F) and v.kind == "nan"
        if name == "isinf":
            v = self.lift(pos[0])
            return isinstance(v, F) and v.kind == "inf"
        if name == "isfinite":
            v = self.lift(pos[0])
            return isinstance(v, F) and v.kind == "fin"
        if name == "float":
            v = pos[0]
            if isinstance(v, str):
                return self.lift(float(v))
            return self.lift(v)
        if name == "log":
            return None
        if name == "const":
            return pos  # unreachable
        return super().builtin(name, pos, kw, node)

    def list_method(self, lst: list[Any], m: str, pos: list[Any], kw: dict[str, Any],
                    node: ast.AST) -> Any:
        self.log.append((m, len(lst)))
        return super().list_method(lst, m, pos, kw, node)

    def apply(self, fn: Any, pos: list[Any], kw: dict[str, Any], node: ast.AST) -> Any:
        if isinstance(fn, tuple) and len(fn) == 3 and fn[0] == "builtin" and fn[1] == "const":
            return fn[2]
        return super().apply(fn, pos, kw, node)

    def apply_other(self, fn: Any, pos: list[Any], kw: dict[str, Any], node: ast.AST) -> Any:
        if isinstance(fn, str):  # exception classes used in `raise X(...)`
            return Obj("Exception", name=fn)
        return super().apply_other(fn, pos, kw, node)

    def exc_name(self, exc: ast.AST | None) -> str:
        from .cfg import exc_class_name

        return exc_class_name(exc) or "Exception"
