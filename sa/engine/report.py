"""Run bookkeeping: obligations, violations, known findings, evidence, exit codes.

Exit codes (DESIGN.md, common policy):
    0  every rule held on everything analysed (known findings are printed, not failed)
    1  a construct violates a rule and is not listed in known_findings.json
    2  ANALYSIS-ERROR: anchor vanished, idiom not recognised, instance floor missed
"""
from __future__ import annotations

import ast
import json
import os
import re
import sys
import time
import traceback
from dataclasses import dataclass, field
from pathlib import Path
from typing import Any, Callable

VERIF = Path(__file__).resolve().parents[2]
REPO = Path(os.environ.get("VERIF_REPO", "/repo"))
SRC = REPO / "src"
PKG = "frequenz.sdk"


class AnalysisError(Exception):
    """The analysis cannot give a verdict (fail closed, exit 2)."""


def norm_text(node_or_text: Any) -> str:
    """Normalised statement text used in finding keys (never line numbers)."""
    if isinstance(node_or_text, ast.AST):
        text = ast.unparse(node_or_text)
    else:
        text = str(node_or_text)
    return re.sub(r"\s+", " ", text).strip()


def first_line(node_or_text: Any, limit: int = 160) -> str:
    text = norm_text(node_or_text)
    return text if len(text) <= limit else text[: limit - 3] + "..."


@dataclass
class Violation:
    rule: str
    function: str
    construct: str
    where: str
    message: str
    path: list[str] = field(default_factory=list)
    extra: dict[str, Any] = field(default_factory=dict)

    def key(self) -> tuple[str, str, str]:
        return (self.rule, self.function, self.construct)


class Run:
    """One run of one property's checker."""

    def __init__(self, prop_id: str, tier: str, seed: int) -> None:
        self.prop_id = prop_id
        self.tier = tier
        self.seed = seed
        self.t0 = time.time()
        self.obligations = 0
        self.discharged = 0
        self.rules: dict[str, dict[str, Any]] = {}
        self.violations: list[Violation] = []
        self.samples: list[Any] = []
        self.functions: set[str] = set()
        self.assumptions: list[str] = []
        self.notes: list[str] = []
        self.controls: list[dict[str, Any]] = []
        self.extra_cov: dict[str, Any] = {}
        self.distinct: set[str] = set()
        self.not_decided: list[str] = []
        self.quiet = False

    # ------------------------------------------------------------------ recording
    def rule(self, rule_id: str, text: str) -> None:
        self.rules.setdefault(
            rule_id, {"text": text, "instances": 0, "violations": 0, "items": []}
        )

    def analysed(self, qualname: str) -> None:
        self.functions.add(qualname)

    def assume(self, text: str) -> None:
        if text not in self.assumptions:
            self.assumptions.append(text)

    def note(self, text: str) -> None:
        self.notes.append(text)

    def undecided(self, text: str) -> None:
        self.not_decided.append(text)

    def sample(self, obj: Any, limit: int = 12) -> None:
        if len(self.samples) < limit:
            self.samples.append(obj)

    def ok(self, rule_id: str, instance: str, detail: str | None = None) -> None:
        """An obligation that was checked and holds."""
        self._count(rule_id, instance)
        self.discharged += 1
        if detail is not None:
            self.sample({"rule": rule_id, "instance": instance, "holds": detail})

    def _count(self, rule_id: str, instance: str) -> None:
        if rule_id not in self.rules:
            self.rule(rule_id, "")
        self.obligations += 1
        info = self.rules[rule_id]
        info["instances"] += 1
        if len(info["items"]) < 40:
            info["items"].append(instance)
        self.distinct.add(f"{rule_id}|{instance}")

    def violation(
        self,
        rule_id: str,
        function: str,
        construct: Any,
        message: str,
        node: ast.AST | None = None,
        file: str | None = None,
        path: list[str] | None = None,
        **extra: Any,
    ) -> None:
        """An obligation that was checked and fails."""
        ctext = norm_text(construct)
        self._count(rule_id, f"{function} :: {first_line(ctext, 100)}")
        self.rules[rule_id]["violations"] += 1
        where = ""
        if file is not None:
            where = str(file)
            if node is not None and hasattr(node, "lineno"):
                where += f":{node.lineno}"
        self.violations.append(
            Violation(rule_id, function, ctext, where, message, path or [], extra)
        )

    def check(
        self,
        cond: bool,
        rule_id: str,
        function: str,
        construct: Any,
        message: str,
        node: ast.AST | None = None,
        file: str | None = None,
        path: list[str] | None = None,
        instance: str | None = None,
        **extra: Any,
    ) -> bool:
        if cond:
            self.ok(rule_id, instance or f"{function} :: {first_line(construct, 100)}")
        else:
            self.violation(
                rule_id, function, construct, message, node=node, file=file, path=path, **extra
            )
        return cond

    def floor(self, rule_id: str, minimum: int) -> None:
        """Instance floor: a rule matching fewer sites than confirmed by hand is broken."""
        if self.violations:
            return  # a violating tree is reported as such; floors guard against vacuous passes only
        have = sum(1 for d in self.distinct if d.startswith(rule_id + "|"))
        if have < minimum:
            raise AnalysisError(
                f"rule {rule_id}: matched {have} instance(s), floor is {minimum} "
                "(rule would pass vacuously; anchors moved?)"
            )

    def control(self, name: str, fired: bool, detail: str = "") -> None:
        """Seeded in-memory control: rule must fire on a broken variant."""
        self.controls.append({"control": name, "fired": fired, "detail": detail})
        if not fired:
            raise AnalysisError(
                f"seeded control '{name}' did not fire — the rule has lost its teeth ({detail})"
            )

    # ------------------------------------------------------------------ finishing
    def finish(self, explanation: str) -> int:
        known = load_known_findings()
        reported: list[Violation] = []
        known_hits: list[tuple[Violation, dict[str, Any]]] = []
        uniq: dict[tuple[str, str, str], Violation] = {}
        for v in self.violations:
            if v.key() in uniq:
                uniq[v.key()].extra["occurrences"] = uniq[v.key()].extra.get("occurrences", 1) + 1
            else:
                uniq[v.key()] = v
        for v in uniq.values():
            hit = match_known(known, self.prop_id, v)
            if hit is not None:
                known_hits.append((v, hit))
            else:
                reported.append(v)
        wall = time.time() - self.t0
        selftest = bool(os.environ.get("VERIF_SELFTEST"))
        rdir = VERIF / "reports" / (self.prop_id if not selftest else f"selftest_{self.prop_id}_{os.getpid()}")
        rdir.mkdir(parents=True, exist_ok=True)
        for old in rdir.glob("*.json"):
            old.unlink()
        lines: list[str] = []
        for v, hit in known_hits:
            lines.append(
                f"KNOWN-FINDING: property={self.prop_id} {hit.get('id', '')} "
                f"rule={v.rule} {v.function}: {first_line(v.construct, 90)} — {hit.get('what', v.message)}"
            )
        for i, v in enumerate(reported):
            rpath = rdir / f"violation_{i:02d}.json"
            rpath.write_text(
                json.dumps(
                    {
                        "property": self.prop_id,
                        "rule": v.rule,
                        "rule_text": self.rules.get(v.rule, {}).get("text", ""),
                        "function": v.function,
                        "construct": v.construct,
                        "where": v.where,
                        "message": v.message,
                        "path": v.path,
                        "extra": v.extra,
                        "tier": self.tier,
                    },
                    indent=1,
                    default=str,
                )
            )
            lines.append(
                f"  {v.where or v.function}: [{v.rule}] {v.function}: {first_line(v.construct, 100)}\n"
                f"      {v.message}"
            )
            lines.append(f"VIOLATION property={self.prop_id} replay={rpath}")
        coverage: dict[str, Any] = {
            "explanation": explanation,
            "obligations": self.obligations,
            "discharged": self.discharged,
            "evaluations": max(self.obligations, 1),
            "distinct_nontrivial": max(len(self.distinct), 0),
            "rule": "one evaluation = one rule instance (rule x construct/path/ordering) decided on "
            "the parsed source of /repo; distinct = distinct (rule, instance) pairs",
            "rules": {
                k: {"text": r["text"], "instances": r["instances"], "violations": r["violations"],
                    "items": r["items"][:12]}
                for k, r in self.rules.items()
            },
            "functions_analysed": sorted(self.functions),
            "samples": self.samples or [{"note": "no sample recorded"}],
            "seeded_controls": self.controls,
            "known_findings_hit": [
                {"id": h.get("id"), "rule": v.rule, "function": v.function, "construct": v.construct}
                for v, h in known_hits
            ],
            "not_decided": self.not_decided,
            "notes": self.notes,
            "exhaustive": False,
        }
        coverage.update(self.extra_cov)
        evidence = {
            "property_id": self.prop_id,
            "tier": self.tier,
            "seed": self.seed,
            "level": "other",
            "coverage": coverage,
            "assumptions": self.assumptions,
            "wall_s": round(wall, 3),
            "violations": len(reported),
        }
        edir = VERIF / "evidence"
        edir.mkdir(exist_ok=True)
        if not selftest:  # self-test runs analyse scratch copies: they must not overwrite the evidence
            (edir / f"{self.prop_id}.json").write_text(json.dumps(evidence, indent=1, default=str))
        else:
            import shutil

            shutil.rmtree(rdir, ignore_errors=True)
        if not self.quiet:
            print(
                f"[{self.prop_id}] tier={self.tier} functions={len(self.functions)} "
                f"obligations={self.obligations} discharged={self.discharged} "
                f"violations={len(reported)} known={len(known_hits)} "
                f"controls={sum(1 for c in self.controls if c['fired'])}/{len(self.controls)} "
                f"wall={wall:.2f}s"
            )
            for rid, r in self.rules.items():
                print(f"  rule {rid}: {r['instances']} instance(s), {r['violations']} violating")
            for line in lines:
                print(line)
        return 1 if reported else 0


# ---------------------------------------------------------------------- known findings
def load_known_findings() -> list[dict[str, Any]]:
    path = VERIF / "known_findings.json"
    if not path.exists():
        return []
    data = json.loads(path.read_text())
    return list(data.get("findings", []))


def match_known(known: list[dict[str, Any]], prop: str, v: Violation) -> dict[str, Any] | None:
    """A finding suppresses only the exact (property, rule, function, construct) it names.

    `fixed` entries suppress nothing.
    """
    for k in known:
        if k.get("status") != "known":
            continue
        if k.get("property") != prop or k.get("rule") != v.rule:
            continue
        if k.get("function") != v.function:
            continue
        want = norm_text(k.get("construct", ""))
        if want == v.construct:
            return k
    return None


def run_guarded(prop_id: str, fn: Callable[[], int]) -> int:
    """Map tracebacks and AnalysisError to exit 2 with an ANALYSIS-ERROR line."""
    try:
        return fn()
    except AnalysisError as exc:
        print(f"ANALYSIS-ERROR property={prop_id} {exc}")
        return 2
    except Exception as exc:  # pylint: disable=broad-except
        traceback.print_exc(file=sys.stderr)
        print(f"ANALYSIS-ERROR property={prop_id} internal error: {type(exc).__name__}: {exc}")
        return 2
