"""E-R: resolved program over /repo/src/frequenz/sdk, built with `ast` only.

Anchors are addressed by qualified name ``<module relative to frequenz.sdk>:<Class.method>``.
A vanished anchor raises AnalysisError (exit 2), never a silent pass.
"""
from __future__ import annotations

import ast
import sys
from dataclasses import dataclass, field
from pathlib import Path
from typing import Any, Iterable, Iterator

from .report import PKG, SRC, AnalysisError

FuncNode = ast.FunctionDef | ast.AsyncFunctionDef


@dataclass
class Module:
    name: str  # dotted, relative to frequenz.sdk ("" for the package itself)
    path: Path
    source: str
    tree: ast.Module
    imports: dict[str, str] = field(default_factory=dict)  # local name -> dotted target
    functions: dict[str, "FuncInfo"] = field(default_factory=dict)
    classes: dict[str, "ClassInfo"] = field(default_factory=dict)
    assigns: dict[str, ast.AST] = field(default_factory=dict)  # module-level NAME = value

    @property
    def rel(self) -> str:
        try:
            return str(self.path.relative_to(SRC.parent))
        except ValueError:
            return str(self.path)


@dataclass
class ClassInfo:
    name: str
    module: Module
    node: ast.ClassDef
    base_exprs: list[str]
    methods: dict[str, "FuncInfo"] = field(default_factory=dict)
    bases: list["ClassInfo"] = field(default_factory=list)
    ext_bases: list[str] = field(default_factory=list)
    class_assigns: dict[str, ast.AST] = field(default_factory=dict)

    @property
    def qual(self) -> str:
        return f"{self.module.name}:{self.name}"


@dataclass
class FuncInfo:
    name: str
    module: Module
    node: FuncNode
    cls: ClassInfo | None = None
    outer: "FuncInfo | None" = None

    @property
    def qual(self) -> str:
        if self.outer is not None:
            return f"{self.outer.qual}.<locals>.{self.name}"
        if self.cls is not None:
            return f"{self.module.name}:{self.cls.name}.{self.name}"
        return f"{self.module.name}:{self.name}"

    @property
    def file(self) -> str:
        return self.module.rel

    @property
    def is_async(self) -> bool:
        return isinstance(self.node, ast.AsyncFunctionDef)

    def loc(self, node: ast.AST | None = None) -> str:
        n = node if node is not None else self.node
        return f"{self.file}:{getattr(n, 'lineno', '?')}"

    @property
    def params(self) -> list[str]:
        a = self.node.args
        return [x.arg for x in a.posonlyargs + a.args + a.kwonlyargs]


def dotted(expr: ast.AST) -> str | None:
    """`a.b.c` -> "a.b.c"; anything else -> None."""
    parts: list[str] = []
    cur = expr
    while isinstance(cur, ast.Attribute):
        parts.append(cur.attr)
        cur = cur.value
    if isinstance(cur, ast.Name):
        parts.append(cur.id)
        return ".".join(reversed(parts))
    return None


def walk_no_nested(node: ast.AST, include_root: bool = True) -> Iterator[ast.AST]:
    """ast.walk that does not descend into nested function/class/lambda bodies."""
    stack = [node]
    first = True
    while stack:
        cur = stack.pop()
        if not first and isinstance(
            cur, (ast.FunctionDef, ast.AsyncFunctionDef, ast.ClassDef, ast.Lambda)
        ):
            continue
        if include_root or not first:
            yield cur
        first = False
        stack.extend(reversed(list(ast.iter_child_nodes(cur))))


def body_walk(fn: FuncNode) -> Iterator[ast.AST]:
    """Walk the statements of a function body (not nested defs, not the signature)."""
    for stmt in fn.body:
        yield from walk_no_nested(stmt)


def parent_map(root: ast.AST) -> dict[ast.AST, ast.AST]:
    parents: dict[ast.AST, ast.AST] = {}
    for node in ast.walk(root):
        for child in ast.iter_child_nodes(node):
            parents[child] = node
    return parents


_PARSE_CACHE: dict[Path, tuple[str, ast.Module]] = {}


def algebraic_view(tree: ast.Module) -> ast.Module:
    """`math.fsum(xs)` (the exactly rounded float sum) is `sum(xs)` for every algebraic rule: the call's function is
    replaced by the name `sum` in place (positions kept, so source segments still show the original text) and the call
    is marked `_exact_sum = True` for the rules that care about the float result itself (C17.EXACT)."""
    for node in ast.walk(tree):
        if isinstance(node, ast.Call) and len(node.args) == 1 and not node.keywords:
            f = node.func
            if (isinstance(f, ast.Attribute) and f.attr == "fsum" and isinstance(f.value, ast.Name) and f.value.id == "math") \
                    or (isinstance(f, ast.Name) and f.id == "fsum"):
                node.func = ast.copy_location(ast.Name(id="sum", ctx=ast.Load()), f)
                node.func.end_lineno, node.func.end_col_offset = f.end_lineno, f.end_col_offset
                node._exact_sum = True  # type: ignore[attr-defined]
    return tree


def _parse_cached(path: Path) -> tuple[str, ast.Module]:
    """Trees are never mutated by the analyses, so one parse per file per process is shared."""
    hit = _PARSE_CACHE.get(path)
    if hit is None:
        source = path.read_text()
        try:
            tree = algebraic_view(ast.parse(source, filename=str(path)))
        except SyntaxError as exc:
            raise AnalysisError(f"cannot parse {path}: {exc}") from exc
        hit = (source, tree)
        _PARSE_CACHE[path] = hit
    return hit


class Program:
    """All modules of the package, parsed fresh from the working tree."""

    def __init__(self, overrides: dict[str, str] | None = None, src: Path | None = None) -> None:
        self.src = src or SRC
        self.root = self.src / PKG.replace(".", "/")
        if not self.root.is_dir():
            raise AnalysisError(f"package root {self.root} not found")
        self.modules: dict[str, Module] = {}
        self.overrides = overrides or {}
        for path in sorted(self.root.rglob("*.py")):
            rel = path.relative_to(self.root)
            parts = list(rel.with_suffix("").parts)
            if parts and parts[-1] == "__init__":
                parts = parts[:-1]
            name = ".".join(parts)
            source = self.overrides.get(name)
            if source is None:
                source, tree = _parse_cached(path)
            else:
                try:
                    tree = algebraic_view(ast.parse(source, filename=str(path)))
                except SyntaxError as exc:
                    raise AnalysisError(f"cannot parse override of {path}: {exc}") from exc
            self.modules[name] = Module(name, path, source, tree)
        for mod in self.modules.values():
            self._index_module(mod)
        for mod in self.modules.values():
            for cls in mod.classes.values():
                self._link_bases(cls)
        self._callers: dict[str, list[tuple[FuncInfo, ast.Call]]] | None = None

    # ------------------------------------------------------------------ indexing
    def _index_module(self, mod: Module) -> None:
        pkg_parts = (PKG + ("." + mod.name if mod.name else "")).split(".")
        is_pkg = mod.path.name == "__init__.py"
        for node in ast.walk(mod.tree):
            if isinstance(node, ast.Import):
                for alias in node.names:
                    local = alias.asname or alias.name.split(".")[0]
                    mod.imports[local] = alias.name if alias.asname else alias.name.split(".")[0]
            elif isinstance(node, ast.ImportFrom):
                if node.level:
                    base = pkg_parts if is_pkg else pkg_parts[:-1]
                    base = base[: len(base) - (node.level - 1)]
                    target = ".".join(base + (node.module.split(".") if node.module else []))
                else:
                    target = node.module or ""
                for alias in node.names:
                    mod.imports[alias.asname or alias.name] = f"{target}.{alias.name}"
        for stmt in mod.tree.body:
            if isinstance(stmt, (ast.FunctionDef, ast.AsyncFunctionDef)):
                mod.functions[stmt.name] = FuncInfo(stmt.name, mod, stmt)
            elif isinstance(stmt, ast.ClassDef):
                cls = ClassInfo(
                    stmt.name, mod, stmt, [ast.unparse(b) for b in stmt.bases]
                )
                for sub in stmt.body:
                    if isinstance(sub, (ast.FunctionDef, ast.AsyncFunctionDef)):
                        cls.methods[sub.name] = FuncInfo(sub.name, mod, sub, cls)
                    elif isinstance(sub, ast.Assign):
                        for tgt in sub.targets:
                            if isinstance(tgt, ast.Name):
                                cls.class_assigns[tgt.id] = sub.value
                    elif isinstance(sub, ast.AnnAssign) and isinstance(sub.target, ast.Name):
                        if sub.value is not None:
                            cls.class_assigns[sub.target.id] = sub.value
                mod.classes[stmt.name] = cls
            elif isinstance(stmt, ast.Assign):
                for tgt in stmt.targets:
                    if isinstance(tgt, ast.Name):
                        mod.assigns[tgt.id] = stmt.value
            elif isinstance(stmt, ast.AnnAssign) and isinstance(stmt.target, ast.Name):
                if stmt.value is not None:
                    mod.assigns[stmt.target.id] = stmt.value

    def _link_bases(self, cls: ClassInfo) -> None:
        for base in cls.node.bases:
            expr = base.value if isinstance(base, ast.Subscript) else base  # Generic[T]
            name = dotted(expr)
            target = self.resolve_name(cls.module, name) if name else None
            if isinstance(target, ClassInfo):
                cls.bases.append(target)
            else:
                cls.ext_bases.append(self.external_name(cls.module, name) if name else ast.unparse(base))

    # ------------------------------------------------------------------ lookup
    def module(self, name: str) -> Module:
        if name not in self.modules:
            raise AnalysisError(f"anchor module frequenz.sdk.{name} not found")
        return self.modules[name]

    def cls(self, qual: str) -> ClassInfo:
        modname, _, cname = qual.partition(":")
        mod = self.module(modname)
        if cname not in mod.classes:
            raise AnalysisError(f"anchor class {qual} not found")
        return mod.classes[cname]

    def func(self, qual: str) -> FuncInfo:
        modname, _, rest = qual.partition(":")
        mod = self.module(modname)
        if "." in rest:
            cname, fname = rest.split(".", 1)
            if cname not in mod.classes:
                raise AnalysisError(f"anchor class {modname}:{cname} not found")
            if fname not in mod.classes[cname].methods:
                raise AnalysisError(f"anchor {qual} not found")
            return mod.classes[cname].methods[fname]
        if rest not in mod.functions:
            raise AnalysisError(f"anchor {qual} not found")
        return mod.functions[rest]

    def has_func(self, qual: str) -> bool:
        try:
            self.func(qual)
            return True
        except AnalysisError:
            return False

    def all_functions(self) -> Iterator[FuncInfo]:
        for mod in self.modules.values():
            yield from mod.functions.values()
            for cls in mod.classes.values():
                yield from cls.methods.values()

    def all_classes(self) -> Iterator[ClassInfo]:
        for mod in self.modules.values():
            yield from mod.classes.values()

    def external_name(self, mod: Module, name: str | None) -> str:
        """Dotted name with import aliases expanded (for third-party/stdlib symbols)."""
        if not name:
            return ""
        head, _, tail = name.partition(".")
        if head in mod.imports:
            return mod.imports[head] + ("." + tail if tail else "")
        return name

    def resolve_name(self, mod: Module, name: str | None, _depth: int = 0) -> Any:
        """Resolve a dotted name used in `mod` to ClassInfo / FuncInfo / Module / None."""
        if not name or _depth > 8:
            return None
        head, _, tail = name.partition(".")
        obj: Any = None
        if head in mod.classes:
            obj = mod.classes[head]
        elif head in mod.functions:
            obj = mod.functions[head]
        elif head in mod.imports:
            obj = self._resolve_dotted(mod.imports[head], _depth + 1)
        if obj is None:
            return None
        for part in tail.split(".") if tail else []:
            if isinstance(obj, Module):
                parent = obj
                obj = self.resolve_name(parent, part, _depth + 1)
                if obj is None:
                    sub = (parent.name + "." if parent.name else "") + part
                    obj = self.modules.get(sub)
            elif isinstance(obj, ClassInfo):
                meth = self.resolve_method(obj, part)
                obj = meth
            else:
                return None
            if obj is None:
                return None
        return obj

    def _resolve_dotted(self, target: str, depth: int) -> Any:
        if not target.startswith(PKG):
            return None
        rest = target[len(PKG):].lstrip(".")
        if rest in self.modules:
            return self.modules[rest]
        # longest module prefix, then attribute inside it
        parts = rest.split(".")
        for cut in range(len(parts) - 1, -1, -1):
            modname = ".".join(parts[:cut])
            if modname in self.modules:
                sub = self.modules[modname]
                attr = ".".join(parts[cut:])
                return self.resolve_name(sub, attr, depth + 1)
        return None

    # ------------------------------------------------------------------ classes
    def mro(self, cls: ClassInfo) -> list[ClassInfo]:
        out: list[ClassInfo] = []
        seen: set[str] = set()

        def visit(c: ClassInfo) -> None:
            if c.qual in seen:
                return
            seen.add(c.qual)
            out.append(c)
            for b in c.bases:
                visit(b)

        visit(cls)
        return out

    def resolve_method(self, cls: ClassInfo, name: str) -> FuncInfo | None:
        for c in self.mro(cls):
            if name in c.methods:
                return c.methods[name]
        return None

    def subclasses(self, cls: ClassInfo, strict: bool = True) -> list[ClassInfo]:
        out = []
        for c in self.all_classes():
            if c is cls and strict:
                continue
            if any(b is cls for b in self.mro(c)):
                out.append(c)
        return out

    def ext_ancestors(self, cls: ClassInfo) -> set[str]:
        out: set[str] = set()
        for c in self.mro(cls):
            out.update(c.ext_bases)
        return out

    def attr_classes(self, cls: ClassInfo) -> dict[str, set[str]]:
        """self.<attr> -> class names assigned anywhere in the class (constructor call or annotation)."""
        out: dict[str, set[str]] = {}
        for c in self.mro(cls):
            for meth in c.methods.values():
                for node in body_walk(meth.node):
                    tgt: ast.AST | None = None
                    val: ast.AST | None = None
                    ann: ast.AST | None = None
                    if isinstance(node, ast.Assign) and len(node.targets) == 1:
                        tgt, val = node.targets[0], node.value
                    elif isinstance(node, ast.AnnAssign):
                        tgt, val, ann = node.target, node.value, node.annotation
                    if (
                        isinstance(tgt, ast.Attribute)
                        and isinstance(tgt.value, ast.Name)
                        and tgt.value.id == "self"
                    ):
                        names = out.setdefault(tgt.attr, set())
                        if ann is not None:
                            for n in ast.walk(ann):
                                if isinstance(n, ast.Name):
                                    names.add(n.id)
                                elif isinstance(n, ast.Attribute):
                                    names.add(n.attr)
                        if isinstance(val, ast.Call):
                            d = dotted(val.func)
                            if d:
                                names.add(d.split(".")[-1])
                        elif isinstance(val, ast.Name):
                            # parameter with annotation
                            for a in meth.node.args.args + meth.node.args.kwonlyargs:
                                if a.arg == val.id and a.annotation is not None:
                                    for n in ast.walk(a.annotation):
                                        if isinstance(n, ast.Name):
                                            names.add(n.id)
                                        elif isinstance(n, ast.Attribute):
                                            names.add(n.attr)
        return out

    # ------------------------------------------------------------------ calls
    def resolve_call(self, fn: FuncInfo, call: ast.Call) -> list[FuncInfo | ClassInfo]:
        """Resolve the callee(s) of `call` inside `fn` (name-based, through self/super/attrs)."""
        f = call.func
        mod = fn.module
        cls = fn.cls or (fn.outer.cls if fn.outer else None)
        if isinstance(f, ast.Name):
            tgt = self.resolve_name(mod, f.id)
            return [tgt] if isinstance(tgt, (FuncInfo, ClassInfo)) else []
        if isinstance(f, ast.Attribute):
            base = f.value
            if isinstance(base, ast.Name) and base.id in ("self", "cls") and cls is not None:
                m = self.resolve_method(cls, f.attr)
                out: list[FuncInfo | ClassInfo] = [m] if m else []
                for sub in self.subclasses(cls):
                    if f.attr in sub.methods and sub.methods[f.attr] not in out:
                        out.append(sub.methods[f.attr])
                return out
            if (
                isinstance(base, ast.Call)
                and isinstance(base.func, ast.Name)
                and base.func.id == "super"
                and cls is not None
            ):
                for c in self.mro(cls)[1:]:
                    if f.attr in c.methods:
                        return [c.methods[f.attr]]
                return []
            if (
                isinstance(base, ast.Attribute)
                and isinstance(base.value, ast.Name)
                and base.value.id == "self"
                and cls is not None
            ):
                outl: list[FuncInfo | ClassInfo] = []
                for cname in self.attr_classes(cls).get(base.attr, ()):  # type names
                    target = self.resolve_name(mod, cname)
                    if target is None:
                        for c in self.all_classes():
                            if c.name == cname:
                                target = c
                                break
                    if isinstance(target, ClassInfo):
                        m = self.resolve_method(target, f.attr)
                        if m and m not in outl:
                            outl.append(m)
                        for sub in self.subclasses(target):
                            if f.attr in sub.methods and sub.methods[f.attr] not in outl:
                                outl.append(sub.methods[f.attr])
                return outl
            d = dotted(f)
            if d:
                tgt = self.resolve_name(mod, d)
                if isinstance(tgt, (FuncInfo, ClassInfo)):
                    return [tgt]
        return []

    def callers(self, qual: str) -> list[tuple[FuncInfo, ast.Call]]:
        if self._callers is None:
            idx: dict[str, list[tuple[FuncInfo, ast.Call]]] = {}
            for fn in self.all_functions():
                for node in ast.walk(fn.node):
                    if isinstance(node, ast.Call):
                        for tgt in self.resolve_call(fn, node):
                            if isinstance(tgt, FuncInfo):
                                idx.setdefault(tgt.qual, []).append((fn, node))
            self._callers = idx
        return self._callers.get(qual, [])

    def attr_call_sites(self, attr: str) -> list[tuple[FuncInfo, ast.Call]]:
        """All call sites `<anything>.<attr>(...)` in the package (syntactic, over-approximate)."""
        out = []
        for fn in self.all_functions():
            for node in ast.walk(fn.node):
                if (
                    isinstance(node, ast.Call)
                    and isinstance(node.func, ast.Attribute)
                    and node.func.attr == attr
                ):
                    out.append((fn, node))
        return out

    def nested(self, fn: FuncInfo, name: str) -> FuncInfo:
        for node in ast.walk(fn.node):
            if isinstance(node, (ast.FunctionDef, ast.AsyncFunctionDef)) and node.name == name \
                    and node is not fn.node:
                return FuncInfo(name, fn.module, node, None, fn)
        raise AnalysisError(f"nested function {name} not found in {fn.qual}")


# ---------------------------------------------------------------------- third-party sources
def find_installed_source(dotted_module: str) -> Path | None:
    """Locate an installed module's source on sys.path without importing it."""
    rel = Path(*dotted_module.split("."))
    for entry in sys.path:
        if not entry:
            continue
        base = Path(entry)
        for cand in (base / rel.with_suffix(".py"), base / rel / "__init__.py"):
            if cand.is_file():
                return cand
    return None


# ---------------------------------------------------------------------- small helpers
def is_self_attr(node: ast.AST, attr: str | None = None) -> bool:
    return (
        isinstance(node, ast.Attribute)
        and isinstance(node.value, ast.Name)
        and node.value.id == "self"
        and (attr is None or node.attr == attr)
    )


def contains_await(node: ast.AST) -> bool:
    return any(isinstance(n, (ast.Await, ast.AsyncFor, ast.AsyncWith)) for n in walk_no_nested(node))


def calls_in(node: ast.AST) -> list[ast.Call]:
    return [n for n in walk_no_nested(node) if isinstance(n, ast.Call)]


def call_name(call: ast.Call) -> str:
    d = dotted(call.func)
    if d:
        return d
    if isinstance(call.func, ast.Attribute):
        return "?." + call.func.attr
    return "?"


def names_in(node: ast.AST) -> set[str]:
    return {n.id for n in ast.walk(node) if isinstance(n, ast.Name)}


def apply_patch(source: str, old: str, new: str, count: int = 1) -> str | None:
    """In-memory textual patch for seeded controls; None if it no longer applies."""
    if source.count(old) < 1:
        return None
    return source.replace(old, new, count)
