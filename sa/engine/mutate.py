"""Sensitivity sweep (thorough tier): which single-point edits of the analysed functions do the rules reject?

For every function the property's rules analysed, every applicable single-point mutation (comparison
boundary, and/or, negated test, +/-, min/max, 0/1, True/False, continue/break, statement deletion) is
applied *in memory* to the module's syntax tree, the whole program is re-indexed with that override
and the property's rules are re-run.  A mutant is

  rejected       some rule reports a violation the unmutated tree does not have
  failed-closed  the rules raise AnalysisError (an anchor or idiom vanished)
  accepted       the rules stay silent: the edit is either behaviour-preserving for the property
                 (equivalent mutant, or a clause the property does not cover) or a gap of the rules

Nothing is executed and nothing is written to /repo.  The result never changes the verdict of the
check; it is evidence of what the rules are sensitive to, and the list of accepted mutants is the
honest statement of what they are *not* sensitive to.
"""
from __future__ import annotations

import ast
import importlib
import inspect
import os
from typing import Any, Callable, Iterator

from .report import AnalysisError, Run
from .resolver import Program

CMP_SWAP = {ast.Lt: ast.LtE, ast.LtE: ast.Lt, ast.Gt: ast.GtE, ast.GtE: ast.Gt, ast.Eq: ast.NotEq,
            ast.NotEq: ast.Eq, ast.Is: ast.IsNot, ast.IsNot: ast.Is, ast.In: ast.NotIn, ast.NotIn: ast.In}


def _is_logging(node: ast.AST) -> bool:
    if isinstance(node, ast.Expr):
        node = node.value
    if isinstance(node, ast.Await):
        node = node.value
    if isinstance(node, ast.Call):
        t = ast.unparse(node.func)
        return t.startswith(("_logger.", "logging.", "_log.", "print", "warnings."))
    return False


def _is_doc(node: ast.AST) -> bool:
    return isinstance(node, ast.Expr) and isinstance(node.value, ast.Constant) and isinstance(node.value.value, str)


def sites(fn: ast.AST) -> Iterator[tuple[str, int, Callable[[], None], Callable[[], None]]]:
    """(description, lineno, apply, undo) for every mutation site inside `fn`."""
    for node in ast.walk(fn):
        ln = getattr(node, "lineno", 0)
        if isinstance(node, ast.Compare):
            for i, op in enumerate(node.ops):
                new = CMP_SWAP.get(type(op))
                if new is not None:
                    def ap(n=node, i=i, new=new) -> None:
                        n.ops[i] = new()

                    def un(n=node, i=i, op=op) -> None:
                        n.ops[i] = op
                    yield f"{type(op).__name__} -> {new.__name__}", ln, ap, un
        elif isinstance(node, ast.BoolOp):
            old = node.op
            new_op = ast.Or() if isinstance(old, ast.And) else ast.And()
            yield (f"{type(old).__name__} -> {type(new_op).__name__}", ln,
                   lambda n=node, o=new_op: setattr(n, "op", o), lambda n=node, o=old: setattr(n, "op", o))
        elif isinstance(node, (ast.If, ast.While, ast.IfExp)) and not (
                isinstance(node, ast.While) and isinstance(node.test, ast.Constant)):
            old_t = node.test
            neg = old_t.operand if isinstance(old_t, ast.UnaryOp) and isinstance(old_t.op, ast.Not) \
                else ast.UnaryOp(op=ast.Not(), operand=old_t)
            yield ("negate test", ln, lambda n=node, t=neg: setattr(n, "test", t),
                   lambda n=node, t=old_t: setattr(n, "test", t))
        elif isinstance(node, ast.BinOp) and isinstance(node.op, (ast.Add, ast.Sub)):
            old = node.op
            new_op = ast.Sub() if isinstance(old, ast.Add) else ast.Add()
            yield (f"{type(old).__name__} -> {type(new_op).__name__}", ln,
                   lambda n=node, o=new_op: setattr(n, "op", o), lambda n=node, o=old: setattr(n, "op", o))
        elif isinstance(node, ast.AugAssign) and isinstance(node.op, (ast.Add, ast.Sub)):
            old = node.op
            new_op = ast.Sub() if isinstance(old, ast.Add) else ast.Add()
            yield (f"aug {type(old).__name__} -> {type(new_op).__name__}", ln,
                   lambda n=node, o=new_op: setattr(n, "op", o), lambda n=node, o=old: setattr(n, "op", o))
        elif isinstance(node, ast.Call) and isinstance(node.func, ast.Name) and node.func.id in ("min", "max"):
            old_id = node.func.id
            new_id = "max" if old_id == "min" else "min"
            yield (f"{old_id} -> {new_id}", ln, lambda n=node, v=new_id: setattr(n.func, "id", v),
                   lambda n=node, v=old_id: setattr(n.func, "id", v))
        elif isinstance(node, ast.Constant) and isinstance(node.value, bool):
            old_v = node.value
            yield (f"{old_v} -> {not old_v}", ln, lambda n=node, v=not old_v: setattr(n, "value", v),
                   lambda n=node, v=old_v: setattr(n, "value", v))
        elif isinstance(node, ast.Constant) and isinstance(node.value, (int, float)) and node.value in (0, 1):
            old_v = node.value
            new_v = type(old_v)(1 - old_v)
            yield (f"{old_v} -> {new_v}", ln, lambda n=node, v=new_v: setattr(n, "value", v),
                   lambda n=node, v=old_v: setattr(n, "value", v))
        elif isinstance(node, (ast.Continue, ast.Break)):
            pass  # handled through the enclosing suite below
        # statement-level edits inside suites
        for field in ("body", "orelse", "finalbody"):
            suite = getattr(node, field, None)
            if not (isinstance(suite, list) and suite and isinstance(suite[0], ast.stmt)):
                continue
            for i, s in enumerate(suite):
                sl = getattr(s, "lineno", 0)
                if _is_doc(s) or _is_logging(s) or isinstance(s, (ast.FunctionDef, ast.AsyncFunctionDef, ast.ClassDef,
                                                                  ast.Pass, ast.Import, ast.ImportFrom, ast.Global,
                                                                  ast.Nonlocal, ast.Assert)):
                    continue
                if isinstance(s, (ast.Continue, ast.Break)):
                    new_s: ast.stmt = ast.Break() if isinstance(s, ast.Continue) else ast.Continue()
                    yield (f"{type(s).__name__} -> {type(new_s).__name__}", sl,
                           lambda su=suite, i=i, x=ast.copy_location(new_s, s): su.__setitem__(i, x),
                           lambda su=suite, i=i, x=s: su.__setitem__(i, x))
                elif isinstance(s, (ast.Expr, ast.AugAssign, ast.Raise, ast.Delete)) or (
                        isinstance(s, ast.Assign) and any(not isinstance(t, ast.Name) for t in s.targets)):
                    yield (f"delete `{ast.unparse(s).splitlines()[0][:70]}`", sl,
                           lambda su=suite, i=i, x=ast.copy_location(ast.Pass(), s): su.__setitem__(i, x),
                           lambda su=suite, i=i, x=s: su.__setitem__(i, x))
                elif isinstance(s, ast.Return) and s.value is not None and not (
                        isinstance(s.value, ast.Constant) and s.value.value is None):
                    pass  # changing returned values is type-incorrect more often than not: left out


def _find(tree: ast.Module, name: str, lineno: int) -> ast.AST | None:
    for n in ast.walk(tree):
        if isinstance(n, (ast.FunctionDef, ast.AsyncFunctionDef)) and n.name == name and n.lineno == lineno:
            return n
    return None


def _call_rules(rules: Callable[..., Any], run: Run, prog: Program, tier: str) -> None:
    if len(inspect.signature(rules).parameters) >= 3:
        rules(run, prog, tier)
    else:
        rules(run, prog)


_WORK: dict[str, Any] = {}


def _eval(job: tuple[int, str, str]) -> tuple[int, str, str]:
    idx, module, src = job
    prop_id, base = _WORK["prop"], _WORK["base"]
    mod = importlib.import_module(f"sa.props.{prop_id.lower()}")
    scratch = Run(prop_id, "quick", 0)
    try:
        _call_rules(mod.run_rules, scratch, Program(overrides={module: src}), "quick")
    except AnalysisError as exc:
        return idx, "failed-closed", str(exc)[:100]
    except RecursionError:
        return idx, "failed-closed", "recursion limit"
    new = [v for v in scratch.violations if v.key() not in base]
    if new:
        return idx, "rejected", new[0].rule
    return idx, "accepted", ""


def sweep(run: Run, prop_id: str, prog: Program, max_mutants: int = 1500) -> dict[str, Any]:
    """Run the sweep over every analysed function; returns the summary stored in the evidence."""
    from multiprocessing import get_context

    jobs: list[tuple[int, str, str]] = []
    meta: list[dict[str, Any]] = []
    by_mod: dict[str, list[Any]] = {}
    for q in sorted(run.functions):
        try:
            fn = prog.func(q)
        except (AnalysisError, KeyError):
            continue
        by_mod.setdefault(fn.module.name, []).append(fn)
    for mname, fns in by_mod.items():
        src = fns[0].module.source
        tree = ast.parse(src)
        for fn in fns:
            node = _find(tree, fn.node.name, fn.node.lineno)
            if node is None:
                continue
            for descr, ln, ap, un in sites(node):
                if len(jobs) >= max_mutants:
                    break
                ap()
                try:
                    new_src = ast.unparse(tree)
                finally:
                    un()
                jobs.append((len(jobs), mname, new_src))
                line = src.splitlines()[ln - 1].strip()[:90] if 0 < ln <= len(src.splitlines()) else ""
                meta.append({"function": fn.qual, "line": ln, "mutation": descr, "source": line})
    if not jobs:
        return {"mutants": 0}
    _WORK["prop"] = prop_id
    _WORK["base"] = {v.key() for v in run.violations}
    ctx = get_context("fork")
    with ctx.Pool(min(16, os.cpu_count() or 4)) as pool:
        results = pool.map(_eval, jobs, chunksize=4)
    out = {"rejected": 0, "failed-closed": 0, "accepted": 0}
    by_rule: dict[str, int] = {}
    survivors = []
    for idx, status, detail in results:
        out[status] += 1
        if status == "rejected":
            by_rule[detail] = by_rule.get(detail, 0) + 1
        elif status == "accepted":
            survivors.append(meta[idx])
    return {
        "what": "single-point mutations of every analysed function, applied in memory; rules re-run on each",
        "functions": len({m["function"] for m in meta}), "mutants": len(jobs),
        "rejected": out["rejected"], "failed_closed": out["failed-closed"], "accepted": out["accepted"],
        "rejected_by_rule": dict(sorted(by_rule.items())),
        "accepted_mutants": survivors[:400],
        "note": "accepted = the rules stay silent: an equivalent mutant, a clause the property does not "
                "cover, or a gap of the rules; listed so that the reader can tell which",
    }
