"""AST normalisation so that rules see through behaviour-preserving surface differences.

All transformations work on a deep copy (line numbers are preserved, the original tree is never
touched) and are *analysis-only*: they may move a pure expression to its use site or splice a
helper's body into its caller, which is not how the code runs but is how it must be read to decide
what is computed.

  inline_locals(fn)          single-assignment locals are substituted into their uses
  inline_helpers(prog, fn)   calls of simple private helpers (same class / module / nested) are
                             replaced by the helper's body or result expression
  positional(call, params)   keyword arguments mapped onto parameter names
  normalize(prog, fn)        helpers first, then locals; returns a FuncInfo over the new tree
"""
from __future__ import annotations

import ast
import copy
from typing import Iterable

from .resolver import FuncInfo, FuncNode, Program, walk_no_nested

_PURE_CALLS = {"bisect", "bisect_left", "bisect_right", "bisect.bisect", "bisect.bisect_right", "bisect.bisect_left", "max", "min", "len", "abs", "sum", "float", "int", "bool", "str", "timedelta", "isinstance", "round"}

# functions the checkers bind to by name (DESIGN.md appendix A): never spliced into their callers
ANCHOR_NAMES = {
    "_distribute_power", "_greedy_distribute_remaining_power", "_distribute_multi_inverter_pairs",
    "_compute_battery_availability_ratio", "_distribute_consume_power", "_distribute_supply_power",
    "_inclusion_exclusion_bounds", "_set_distributed_power", "_get_distribution", "_check_request",
    "_get_bounds", "_parse_result", "_set_api_power", "_get_power_distribution", "_get_components_data",
    "_calc_target_power", "_validate_component_ids", "_synchronize_metric_timestamps", "_fetch_next",
    "_synchronize_and_fetch_fallback", "_is_value_valid", "_calculate_window_end", "_update_buffer_len",
    "_update_source_sample_period", "_receive_samples", "_fill_gaps", "_update_gaps", "_remove_gap",
    "_cleanup_gaps", "_wrapped_buffer_window", "_run_loop", "_run", "_delay_if_restart",
    "_calculate_target_power", "_calculate_shifted_bounds", "_send_updated_target_power", "_bounds_tracker",
    "_send_reports", "_process_request", "_handle_task_completion", "_cancel_tasks",
    "_get_current_status", "_get_new_status_if_changed", "_handle_status_battery", "_handle_status_inverter",
    "_handle_status_set_power_result", "_handle_status_battery_timer", "_handle_status_inverter_timer",
    "_is_capacity_present", "_no_critical_error", "_is_inverter_state_correct", "_is_battery_state_correct",
    "_is_timestamp_outdated", "_is_message_reliable", "_aggregate_battery_power_bounds",
    "_handle_data_stream", "_update_streams", "_get_metric_senders", "_get_data_extraction_method",
    "_check_requested_component_and_metrics", "_check_battery_request", "_check_inverter_request",
    "_check_meter_request", "_check_ev_charger_request", "_subscribe", "_push", "_get_metric_fallback_components",
    "_get_meter_fallback_components", "_is_primary_fallback_pair", "_are_grid_meters", "_gen_with_grid_meter",
    "_gen_without_grid_meter", "_generate", "_get_fallback_formulas", "_get_battery_inverter_data",
}


def _names_stored(node: ast.AST) -> set[str]:
    return {n.id for n in ast.walk(node) if isinstance(n, ast.Name) and isinstance(n.ctx, (ast.Store, ast.Del))}


def _has_await(node: ast.AST) -> bool:
    return any(isinstance(n, (ast.Await, ast.Yield, ast.YieldFrom, ast.NamedExpr)) for n in ast.walk(node))


def _calls(node: ast.AST) -> list[ast.Call]:
    return [n for n in ast.walk(node) if isinstance(n, ast.Call)]


def _is_pure(node: ast.AST) -> bool:
    """No call that could have an effect (attribute reads and the usual pure builtins are fine)."""
    if any(isinstance(n, (ast.List, ast.Dict, ast.Set, ast.ListComp, ast.SetComp, ast.DictComp, ast.GeneratorExp,
                          ast.Lambda, ast.JoinedStr)) for n in ast.walk(node)):
        return False  # a fresh (possibly mutable) object: its identity matters
    for c in _calls(node):
        name = ast.unparse(c.func)
        if name in _PURE_CALLS:
            continue
        if isinstance(c.func, ast.Attribute) and c.func.attr in (
                "total_seconds", "as_watts", "isnan", "isinf", "get", "keys", "values", "items",
                "intersection", "union", "difference", "get_channel_name", "copy"):
            continue
        return False
    return True


class _Subst(ast.NodeTransformer):
    def __init__(self, mapping: dict[str, ast.AST]) -> None:
        self.mapping = mapping
        self.count: dict[str, int] = {}

    def visit_Name(self, node: ast.Name) -> ast.AST:  # noqa: N802
        if isinstance(node.ctx, ast.Load) and node.id in self.mapping:
            self.count[node.id] = self.count.get(node.id, 0) + 1
            new = copy.deepcopy(self.mapping[node.id])
            return ast.copy_location(new, node)
        return node

    # do not descend into nested scopes that rebind the name
    def visit_Lambda(self, node: ast.Lambda) -> ast.AST:  # noqa: N802
        bound = {a.arg for a in node.args.args + node.args.kwonlyargs + node.args.posonlyargs}
        inner = _Subst({k: v for k, v in self.mapping.items() if k not in bound})
        node.body = inner.visit(node.body)
        return node


def _suite_lists(fn: ast.AST) -> Iterable[list[ast.stmt]]:
    for n in ast.walk(fn):
        for field in ("body", "orelse", "finalbody"):
            stmts = getattr(n, field, None)
            if isinstance(stmts, list) and stmts and isinstance(stmts[0], ast.stmt):
                yield stmts
        if isinstance(n, ast.Try):
            for h in n.handlers:
                yield h.body
        if isinstance(n, ast.Match):
            for c in n.cases:
                yield c.body


def inline_locals(fn: FuncNode, keep: Iterable[str] = (), rounds: int = 6) -> FuncNode:
    """Substitute single-assignment locals into their uses (conservatively) on a copy of `fn`."""
    fn = copy.deepcopy(fn)
    keep_s = set(keep)
    params = {a.arg for a in fn.args.args + fn.args.kwonlyargs + fn.args.posonlyargs}
    if fn.args.vararg:
        params.add(fn.args.vararg.arg)
    if fn.args.kwarg:
        params.add(fn.args.kwarg.arg)
    for _ in range(rounds):
        # binding statistics over the whole function (nested defs count as binders of their params only)
        bind_count: dict[str, int] = {}
        for n in ast.walk(fn):
            if isinstance(n, ast.Name) and isinstance(n.ctx, (ast.Store, ast.Del)):
                bind_count[n.id] = bind_count.get(n.id, 0) + 1
            elif isinstance(n, (ast.ExceptHandler,)) and n.name:
                bind_count[n.name] = bind_count.get(n.name, 0) + 1
            elif isinstance(n, ast.arg) and n is not None:
                pass
            elif isinstance(n, (ast.Global, ast.Nonlocal)):
                for nm in n.names:
                    bind_count[nm] = 99
        changed = False
        for suite in _suite_lists(fn):
            i = 0
            while i < len(suite):
                s = suite[i]
                tgt = val = None
                if isinstance(s, ast.Assign) and len(s.targets) == 1 and isinstance(s.targets[0], ast.Name):
                    tgt, val = s.targets[0].id, s.value
                elif isinstance(s, ast.AnnAssign) and isinstance(s.target, ast.Name) and s.value is not None:
                    tgt, val = s.target.id, s.value
                if tgt is None or tgt in keep_s or tgt in params or bind_count.get(tgt, 0) != 1 or _has_await(val) \
                        or any(isinstance(n, ast.Name) and n.id == tgt for n in ast.walk(val)):
                    i += 1
                    continue
                # free names of the RHS must not be rebound anywhere (single binding or parameters)
                free = {n.id for n in ast.walk(val) if isinstance(n, ast.Name) and isinstance(n.ctx, ast.Load)}
                if any(bind_count.get(f, 0) > 1 for f in free):
                    i += 1
                    continue
                # attribute/subscript state read by the RHS must not be written later in this function
                reads_state = [ast.unparse(n) for n in ast.walk(val) if isinstance(n, (ast.Attribute, ast.Subscript))]
                later = suite[i + 1:]
                written = set()
                for n in ast.walk(fn):
                    if isinstance(n, (ast.Attribute, ast.Subscript)) and isinstance(n.ctx, (ast.Store, ast.Del)):
                        written.add(ast.unparse(n))
                if any(any(r == w or r.startswith(w + ".") or r.startswith(w + "[") or w.startswith(r + ".") or w.startswith(r + "[")
                           for w in written) for r in reads_state):
                    i += 1
                    continue
                rest_uses = sum(1 for st in ast.walk(fn) for n in [st] if isinstance(n, ast.Name)
                                and n.id == tgt and isinstance(n.ctx, ast.Load))
                pure = _is_pure(val)
                if not pure and rest_uses != 1:
                    i += 1
                    continue
                if not pure:
                    # a single use: only move the call if the use is in the very next statement
                    nxt = later[0] if later else None
                    if nxt is None or not any(isinstance(n, ast.Name) and n.id == tgt for n in ast.walk(nxt)):
                        i += 1
                        continue
                if rest_uses == 0:
                    i += 1
                    continue
                sub = _Subst({tgt: val})
                # substitute everywhere after the definition (whole function: single binding)
                new_body = [sub.visit(st) if st is not s else st for st in fn.body]
                fn.body = new_body
                # remove the definition
                for su in _suite_lists(fn):
                    if s in su:
                        su.remove(s)
                        if not su:
                            su.append(ast.copy_location(ast.Pass(), s))
                        break
                changed = True
                break
            if changed:
                break
        if not changed:
            break
    ast.fix_missing_locations(fn)
    return fn


# ---------------------------------------------------------------------------------------------
def _helper_target(prog: Program, fn: FuncInfo, call: ast.Call, nested: dict[str, FuncNode]) -> FuncNode | None:
    f = call.func
    if isinstance(f, ast.Name) and f.id in nested:
        return nested[f.id]
    if isinstance(f, ast.Name) and f.id.startswith("_") and f.id in fn.module.functions:
        return fn.module.functions[f.id].node
    if isinstance(f, ast.Attribute) and isinstance(f.value, ast.Name) and f.value.id in ("self", "cls") \
            and f.attr.startswith("_") and not f.attr.startswith("__") and fn.cls is not None:
        m = prog.resolve_method(fn.cls, f.attr)
        if m is not None and m.cls is not None and not any(
                f.attr in sub.methods for sub in prog.subclasses(fn.cls)):
            return m.node
    if isinstance(f, ast.Attribute) and isinstance(f.value, ast.Name) and fn.cls is not None \
            and f.value.id == fn.cls.name and f.attr.startswith("_"):
        m = prog.resolve_method(fn.cls, f.attr)
        return m.node if m is not None else None
    return None


def _strip_doc(body: list[ast.stmt]) -> list[ast.stmt]:
    if body and isinstance(body[0], ast.Expr) and isinstance(body[0].value, ast.Constant) and isinstance(body[0].value.value, str):
        return body[1:]
    return body


def _bind(helper: FuncNode, call: ast.Call) -> dict[str, ast.AST] | None:
    a = helper.args
    names = [x.arg for x in a.posonlyargs + a.args]
    if names and names[0] in ("self", "cls") and not any(
            isinstance(d, ast.Name) and d.id == "staticmethod" for d in helper.decorator_list):
        names = names[1:]
    if any(isinstance(x, ast.Starred) for x in call.args) or any(k.arg is None for k in call.keywords):
        return None
    if len(call.args) > len(names):
        return None
    out: dict[str, ast.AST] = dict(zip(names, call.args))
    for k in call.keywords:
        out[k.arg] = k.value  # type: ignore[index]
    defaults = dict(zip(names[len(names) - len(a.defaults):], a.defaults))
    for n, d in zip([x.arg for x in a.kwonlyargs], a.kw_defaults):
        if d is not None:
            defaults[n] = d
    for n in names + [x.arg for x in a.kwonlyargs]:
        if n not in out:
            if n in defaults:
                out[n] = defaults[n]
            else:
                return None
    return out


def _to_expr(stmts: list[ast.stmt], depth: int = 0) -> ast.AST | None:
    """A statement list made of pure local bindings, if/else and returns as ONE expression
    (`if c: return a` / `return b`  ->  `a if c else b`); None if it has any other shape."""
    if not stmts or depth > 12:
        return None
    s, rest = stmts[0], stmts[1:]
    if isinstance(s, ast.Return):
        return s.value if s.value is not None else ast.Constant(None)
    if isinstance(s, ast.Pass) or (isinstance(s, ast.Expr) and isinstance(s.value, ast.Constant)):
        return _to_expr(rest, depth)
    if isinstance(s, (ast.Assign, ast.AnnAssign)):
        tgt = s.targets[0] if isinstance(s, ast.Assign) and len(s.targets) == 1 else getattr(s, "target", None)
        if not isinstance(tgt, ast.Name) or s.value is None or _has_await(s.value):
            return None
        uses = sum(1 for st in rest for n in ast.walk(st) if isinstance(n, ast.Name) and n.id == tgt.id
                   and isinstance(n.ctx, ast.Load))
        rebound = any(isinstance(n, ast.Name) and n.id == tgt.id and isinstance(n.ctx, ast.Store)
                      for st in rest for n in ast.walk(st))
        if rebound or (not _is_pure(s.value) and uses > 1):
            return None
        sub = _Subst({tgt.id: s.value})
        return _to_expr([sub.visit(copy.deepcopy(st)) for st in rest], depth + 1)
    if isinstance(s, ast.If) and not _has_await(s.test):
        def falls(body: list[ast.stmt]) -> bool:
            return not (body and isinstance(body[-1], ast.Return))
        a = _to_expr(list(s.body) + (rest if falls(s.body) else []), depth + 1)
        b = _to_expr(list(s.orelse) + (rest if falls(s.orelse) else []) if (s.orelse or rest) else [], depth + 1)
        if a is None or b is None:
            return None
        return ast.copy_location(ast.IfExp(test=s.test, body=a, orelse=b), s)
    return None


def _simple_helper(helper: FuncNode) -> str | None:
    """'expr' (single return expression) | 'block' (statements, at most one trailing return) | None."""
    body = _strip_doc(helper.body)
    if not body or helper.decorator_list and not all(
            isinstance(d, ast.Name) and d.id in ("staticmethod", "override") for d in helper.decorator_list):
        return None
    if len(body) == 1 and isinstance(body[0], ast.Return) and body[0].value is not None:
        return "expr"
    if not isinstance(helper, ast.AsyncFunctionDef) and any(isinstance(n, ast.Return) for st in body for n in walk_no_nested(st)) \
            and len(body) <= 25 and _to_expr(copy.deepcopy(body)) is not None:
        return "cond"
    rets = [n for s in body for n in walk_no_nested(s) if isinstance(n, ast.Return)]
    if not rets or (len(rets) == 1 and rets[0] is body[-1]):
        if len(body) <= 25:
            return "block"
    return None


def inline_helpers(prog: Program, fn: FuncInfo, node: FuncNode | None = None, exclude: Iterable[str] = (),
                   depth: int = 2) -> FuncNode:
    """Replace calls of simple private helpers by their body / result expression (on a copy)."""
    root = copy.deepcopy(node if node is not None else fn.node)
    excl = set(exclude)
    spliced: set[str] = set(getattr(node if node is not None else fn.node, "_spliced", ()))
    for _ in range(depth):
        nested = {n.name: n for n in ast.walk(root) if isinstance(n, (ast.FunctionDef, ast.AsyncFunctionDef)) and n is not root}
        changed = False
        for suite in list(_suite_lists(root)):
            i = 0
            while i < len(suite):
                s = suite[i]
                if isinstance(s, (ast.FunctionDef, ast.AsyncFunctionDef, ast.ClassDef)):
                    i += 1
                    continue
                # find helper calls that belong to this very statement (not nested statements)
                own_exprs: list[ast.AST] = []
                if isinstance(s, (ast.Expr, ast.Assign, ast.AnnAssign, ast.AugAssign, ast.Return)):
                    own_exprs = [s]
                elif isinstance(s, (ast.If, ast.While)):
                    own_exprs = [s.test]
                done = False
                for oe in own_exprs:
                    for call in [n for n in ast.walk(oe) if isinstance(n, ast.Call)]:
                        h = _helper_target(prog, fn, call, nested)
                        if h is None or h.name in excl or h.name in ANCHOR_NAMES or h is root:
                            continue
                        kind = _simple_helper(h)
                        binds = _bind(h, call)
                        if kind is None or binds is None:
                            continue
                        hb = copy.deepcopy(_strip_doc(h.body))
                        locals_h = set()
                        for st in hb:
                            locals_h |= _names_stored(st)
                        # rename the helper's own locals so they cannot clash with the caller's
                        ren = {n: f"{n}__{h.name.strip('_')}" for n in locals_h if n not in binds}
                        for st in hb:
                            for nn in ast.walk(st):
                                if isinstance(nn, ast.Name) and nn.id in ren:
                                    nn.id = ren[nn.id]
                        # Arguments are substituted for the parameters only where that cannot reorder
                        # evaluation: in a block helper that writes state, an argument that reads state
                        # (`self._block_for(min(2 * self.last, self.max), now)`) is bound to a fresh local
                        # first, exactly as the call would evaluate it before the body runs.
                        prelude: list[ast.stmt] = []
                        writes_state = kind == "block" and any(
                            isinstance(n, (ast.Attribute, ast.Subscript)) and isinstance(n.ctx, (ast.Store, ast.Del))
                            or isinstance(n, ast.Call) and not _is_pure(n) for st in hb for n in ast.walk(st))
                        direct: dict[str, ast.AST] = {}
                        rebound_param = False
                        for k, v in binds.items():
                            if k in locals_h:
                                # the helper re-binds its own parameter: the parameter becomes a fresh local of the
                                # caller, initialised with the argument (as the call would) -- never a free name
                                fresh = f"{k}__{h.name.strip('_')}"
                                prelude.append(ast.copy_location(ast.Assign(
                                    targets=[ast.Name(id=fresh, ctx=ast.Store())], value=copy.deepcopy(v)), s))
                                for st in hb:
                                    for nn in ast.walk(st):
                                        if isinstance(nn, ast.Name) and nn.id == k:
                                            nn.id = fresh
                                rebound_param = True
                                continue
                            reads_state = any(isinstance(n, (ast.Attribute, ast.Subscript, ast.Call)) for n in ast.walk(v))
                            if writes_state and reads_state and not _has_await(v):
                                fresh = f"{k}__{h.name.strip('_')}"
                                prelude.append(ast.copy_location(ast.Assign(
                                    targets=[ast.Name(id=fresh, ctx=ast.Store())], value=copy.deepcopy(v)), s))
                                direct[k] = ast.Name(id=fresh, ctx=ast.Load())
                            else:
                                direct[k] = v
                        sub = _Subst(direct)
                        hb = [sub.visit(st) for st in hb]
                        if rebound_param and kind != "block":
                            continue       # an expression-shaped helper has no place for the prelude: leave the call
                        if kind == "cond":
                            ce = _to_expr(hb)
                            if ce is None:
                                continue
                            _replace_node(s, call, ce, awaited=False)
                            spliced.add(h.name)
                            changed = done = True
                            break
                        if kind == "expr":
                            new_expr = hb[0].value  # type: ignore[union-attr]
                            _replace_node(s, call, new_expr, awaited=isinstance(h, ast.AsyncFunctionDef))
                            spliced.add(h.name)
                            changed = done = True
                            break
                        # block helper: only when the call is the statement's whole value
                        is_whole = (isinstance(s, ast.Expr) and _unawait(s.value) is call) or (
                            isinstance(s, (ast.Assign, ast.AnnAssign, ast.Return)) and s.value is not None
                            and _unawait(s.value) is call)
                        if not is_whole:
                            continue
                        tail = hb[-1] if hb and isinstance(hb[-1], ast.Return) else None
                        stmts = hb[:-1] if tail is not None else hb
                        new_stmts: list[ast.stmt] = prelude + [
                            ast.copy_location(x, s) if not hasattr(x, "lineno") else x for x in stmts]
                        if isinstance(s, ast.Expr):
                            pass
                        elif tail is not None and tail.value is not None:
                            s2 = copy.copy(s)
                            s2.value = tail.value  # type: ignore[attr-defined]
                            new_stmts.append(s2)
                        else:
                            s2 = copy.copy(s)
                            s2.value = ast.Constant(None)  # type: ignore[attr-defined]
                            new_stmts.append(s2)
                        suite[i:i + 1] = new_stmts or [ast.copy_location(ast.Pass(), s)]
                        spliced.add(h.name)
                        changed = done = True
                        break
                    if done:
                        break
                if not done:
                    i += 1
        if not changed:
            break
    ast.fix_missing_locations(root)
    root._spliced = spliced  # type: ignore[attr-defined]  # names of the helpers read into this function
    return root


def _unawait(e: ast.AST) -> ast.AST:
    return e.value if isinstance(e, ast.Await) else e


def _replace_node(stmt: ast.AST, old: ast.AST, new: ast.AST, awaited: bool) -> None:
    class R(ast.NodeTransformer):
        def visit_Await(self, node: ast.Await) -> ast.AST:  # noqa: N802
            if node.value is old:
                return ast.copy_location(new, node) if awaited and not isinstance(new, ast.Await) else ast.copy_location(
                    ast.Await(value=new) if not awaited else new, node)
            return self.generic_visit(node)

        def generic_visit(self, node: ast.AST) -> ast.AST:
            for field, value in ast.iter_fields(node):
                if value is old:
                    setattr(node, field, ast.copy_location(new, old))
                elif isinstance(value, list):
                    for j, item in enumerate(value):
                        if item is old:
                            value[j] = ast.copy_location(new, old)
                        elif isinstance(item, ast.AST):
                            self.visit(item)
                elif isinstance(value, ast.AST):
                    self.visit(value)
            return node

    R().visit(stmt)


def positional(call: ast.Call, params: list[str]) -> dict[str, ast.AST]:
    """Arguments of `call` keyed by parameter name (positional and keyword forms coincide)."""
    out: dict[str, ast.AST] = {}
    for p, a in zip(params, call.args):
        out[p] = a
    for k in call.keywords:
        if k.arg is not None:
            out[k.arg] = k.value
    return out


def fold_diamonds(fn: FuncNode) -> FuncNode:
    """`if c: x = a / else: x = b`  ->  `x = a if c else b` (both arms a single plain assignment to
    the same name); done on a copy, repeatedly, innermost first."""
    fn = copy.deepcopy(fn)
    changed = True
    while changed:
        changed = False
        for suite in _suite_lists(fn):
            for i, s in enumerate(suite):
                if isinstance(s, ast.If) and len(s.body) == 1 and len(s.orelse) == 1:
                    a, b = s.body[0], s.orelse[0]
                    if isinstance(a, ast.Assign) and isinstance(b, ast.Assign) and len(a.targets) == 1 \
                            and len(b.targets) == 1 and isinstance(a.targets[0], ast.Name) \
                            and isinstance(b.targets[0], ast.Name) and a.targets[0].id == b.targets[0].id \
                            and not _has_await(a.value) and not _has_await(b.value) and not _has_await(s.test):
                        new = ast.Assign(targets=[a.targets[0]], value=ast.IfExp(test=s.test, body=a.value, orelse=b.value))
                        suite[i] = ast.copy_location(new, s)
                        changed = True
    ast.fix_missing_locations(fn)
    return fn


def normalize(prog: Program, fn: FuncInfo, keep: Iterable[str] = (), helpers: bool = True,
              exclude_helpers: Iterable[str] = (), diamonds: bool = True) -> FuncInfo:
    """helpers spliced in, if/else assignment diamonds folded, single-assignment locals inlined."""
    node = inline_helpers(prog, fn, exclude=exclude_helpers) if helpers else copy.deepcopy(fn.node)
    if diamonds:
        node = fold_diamonds(node)
    node = inline_locals(node, keep=keep)
    return FuncInfo(fn.name, fn.module, node, fn.cls, fn.outer)
