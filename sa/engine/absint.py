"""Core of the AST abstract interpreters (E-O order domain, NaN domain, Kleene domain).

Fork-and-replay: one run of a function is deterministic given a decision vector; whenever the
abstract domain cannot decide a test, `choose(n)` consumes the next decision (default 0) and the
driver later replays the function with every alternative.  All booleans are therefore concrete in
every single run, which keeps `match` on tuples of booleans, short-circuit operators and early
returns exact.  Nothing from the repository is imported or executed: the interpreter walks the
parsed AST and gives meaning only to the constructs listed here; anything else raises
AnalysisError (fail closed).
"""
from __future__ import annotations

import ast
from dataclasses import dataclass, field
from typing import Any, Callable, Iterable

from .report import AnalysisError

FuncNode = ast.FunctionDef | ast.AsyncFunctionDef


class _Return(Exception):
    def __init__(self, value: Any) -> None:
        self.value = value


class _Raise(Exception):
    def __init__(self, name: str, node: ast.AST | None = None) -> None:
        self.name = name
        self.node = node


class _Break(Exception):
    pass


class _Continue(Exception):
    pass


class Infeasible(Exception):
    """The current decision vector contradicts the facts: drop this run."""


@dataclass
class Outcome:
    kind: str  # "return" | "raise"
    value: Any
    decisions: list[int]
    labels: list[str]
    log: list[Any]
    state: Any = None
    raise_node: ast.AST | None = None
    post: Any = None


class Obj:
    """A record value with named fields (dataclass instance, namedtuple, …)."""

    def __init__(self, cls: str, **fields: Any) -> None:
        self.cls = cls
        self.fields = dict(fields)

    def __repr__(self) -> str:
        inner = ", ".join(f"{k}={v!r}" for k, v in self.fields.items())
        return f"{self.cls}({inner})"


class Closure:
    def __init__(self, node: ast.Lambda | FuncNode, env: dict[str, Any]) -> None:
        self.node = node
        self.env = env


class Interp:
    max_paths = 50000
    max_loop = 64

    def __init__(self) -> None:
        self.decisions: list[int] = []
        self.arity: list[int] = []
        self.labels: list[str] = []
        self.pos = 0
        self.log: list[Any] = []
        self.frames: list[dict[str, Any]] = []
        self.globals: dict[str, Any] = {}

    # ------------------------------------------------------------------ driver
    def reset(self) -> None:
        """Per-run domain state (facts); overridden by subclasses."""

    def snapshot(self) -> Any:
        return None

    def choose(self, n: int, label: str = "") -> int:
        if self.pos < len(self.decisions):
            d = self.decisions[self.pos]
        else:
            d = 0
            self.decisions.append(0)
        if self.pos < len(self.arity):
            self.arity[self.pos] = n
            self.labels[self.pos] = label
        else:
            self.arity.append(n)
            self.labels.append(label)
        self.pos += 1
        return d

    def explore(self, fn: FuncNode, make_args: Callable[[], dict[str, Any]],
                post: Callable[[Any], Any] | None = None) -> list[Outcome]:
        """All abstract paths of `fn`; `make_args` may itself call choose() to fork inputs.

        `post(result)` runs inside the same abstract run (it may force further decisions, e.g. to
        decide a post-condition exactly); its value is stored in Outcome.post."""
        pending: list[list[int]] = [[]]
        outcomes: list[Outcome] = []
        runs = 0
        while pending:
            prefix = pending.pop()
            runs += 1
            if runs > self.max_paths:
                raise AnalysisError(f"path cap {self.max_paths} exceeded in {fn.name}")
            self.decisions = list(prefix)
            self.arity = []
            self.labels = []
            self.pos = 0
            self.log = []
            self.frames = []
            self.reset()
            out: Outcome | None
            try:
                args = make_args()
                try:
                    val = self.call_node(fn, args)
                    post_val = post(val) if post is not None else None
                    out = Outcome("return", val, [], [], self.log, self.snapshot())
                    out.post = post_val
                except _Raise as r:
                    out = Outcome("raise", r.name, [], [], self.log, self.snapshot(), r.node)
            except Infeasible:
                out = None
            used = self.decisions[: self.pos]
            for i in range(len(prefix), self.pos):
                for alt in range(1, self.arity[i]):
                    pending.append(used[:i] + [alt])
            if out is not None:
                out.decisions = used
                out.labels = list(self.labels[: self.pos])
                outcomes.append(out)
        return outcomes

    # ------------------------------------------------------------------ frames
    @property
    def env(self) -> dict[str, Any]:
        return self.frames[-1]

    def call_node(self, fn: FuncNode | ast.Lambda, args: dict[str, Any],
                  closure_env: dict[str, Any] | None = None) -> Any:
        frame = dict(closure_env or {})
        frame.update(args)
        self.frames.append(frame)
        if len(self.frames) > 40:
            raise AnalysisError("interpreter recursion too deep")
        try:
            if isinstance(fn, ast.Lambda):
                return self.eval(fn.body)
            try:
                self.block(fn.body)
            except _Return as r:
                return r.value
            return None
        finally:
            self.frames.pop()

    def bind_args(self, fn: FuncNode | ast.Lambda, pos: list[Any], kw: dict[str, Any],
                  self_value: Any = None) -> dict[str, Any]:
        a = fn.args
        names = [x.arg for x in a.posonlyargs + a.args]
        out: dict[str, Any] = {}
        if self_value is not None and names and names[0] in ("self", "cls"):
            out[names[0]] = self_value
            names = names[1:]
        defaults = a.defaults
        dmap: dict[str, ast.AST] = {}
        all_pos = [x.arg for x in a.posonlyargs + a.args]
        for n, d in zip(all_pos[len(all_pos) - len(defaults):], defaults):
            dmap[n] = d
        for n, d in zip([x.arg for x in a.kwonlyargs], a.kw_defaults):
            if d is not None:
                dmap[n] = d
        for n, v in zip(names, pos):
            out[n] = v
        if len(pos) > len(names):
            if a.vararg is None:
                raise AnalysisError("too many positional arguments in interpreted call")
            out[a.vararg.arg] = tuple(pos[len(names):])
        for k, v in kw.items():
            out[k] = v
        for n in names + [x.arg for x in a.kwonlyargs]:
            if n not in out:
                if n in dmap:
                    out[n] = self.eval_const_default(dmap[n])
                else:
                    raise AnalysisError(f"missing argument {n} in interpreted call")
        return out

    def eval_const_default(self, node: ast.AST) -> Any:
        if isinstance(node, ast.Constant):
            return node.value
        return self.eval(node)

    # ------------------------------------------------------------------ statements
    def block(self, stmts: Iterable[ast.stmt]) -> None:
        for s in stmts:
            self.stmt(s)

    def stmt(self, s: ast.stmt) -> None:  # noqa: C901
        if isinstance(s, ast.Expr):
            if isinstance(s.value, ast.Constant):
                return
            self.eval(s.value)
        elif isinstance(s, ast.Assign):
            v = self.eval(s.value)
            for t in s.targets:
                self.assign(t, v)
        elif isinstance(s, ast.AnnAssign):
            if s.value is not None:
                self.assign(s.target, self.eval(s.value))
        elif isinstance(s, ast.AugAssign):
            cur = self.eval(_as_load(s.target))
            v = self.binop(s.op, cur, self.eval(s.value), s)
            self.assign(s.target, v)
        elif isinstance(s, ast.If):
            if self.truth(self.eval(s.test), s.test):
                self.block(s.body)
            else:
                self.block(s.orelse)
        elif isinstance(s, ast.While):
            n = 0
            broke = False
            while self.truth(self.eval(s.test), s.test):
                n += 1
                if n > self.max_loop:
                    raise AnalysisError(f"loop bound {self.max_loop} exceeded at line {s.lineno}")
                try:
                    self.block(s.body)
                except _Break:
                    broke = True
                    break
                except _Continue:
                    continue
            if not broke:
                self.block(s.orelse)
        elif isinstance(s, ast.For):
            seq = self.iterate(self.eval(s.iter), s.iter)
            broke = False
            for item in seq:
                self.assign(s.target, item)
                try:
                    self.block(s.body)
                except _Break:
                    broke = True
                    break
                except _Continue:
                    continue
            if not broke:
                self.block(s.orelse)
        elif isinstance(s, ast.Return):
            raise _Return(self.eval(s.value) if s.value is not None else None)
        elif isinstance(s, ast.Raise):
            raise _Raise(self.exc_name(s.exc), s)
        elif isinstance(s, ast.Assert):
            if not self.truth(self.eval(s.test), s.test):
                raise Infeasible()  # asserted facts are assumptions of the analysed code
        elif isinstance(s, ast.Pass):
            return
        elif isinstance(s, ast.Break):
            raise _Break()
        elif isinstance(s, ast.Continue):
            raise _Continue()
        elif isinstance(s, ast.Match):
            self.match(s)
        elif isinstance(s, (ast.FunctionDef, ast.AsyncFunctionDef)):
            self.env[s.name] = Closure(s, self.env)
        elif isinstance(s, ast.With):
            for item in s.items:
                v = self.eval(item.context_expr)
                if item.optional_vars is not None:
                    self.assign(item.optional_vars, v)
            self.block(s.body)
        elif isinstance(s, ast.Try):
            self.try_stmt(s)
        elif isinstance(s, ast.Delete):
            for t in s.targets:
                self.delete(t)
        elif isinstance(s, (ast.Import, ast.ImportFrom, ast.Global, ast.Nonlocal)):
            return
        else:
            raise AnalysisError(f"statement kind {type(s).__name__} not interpretable "
                                f"(line {getattr(s, 'lineno', '?')})")

    def try_stmt(self, s: ast.Try) -> None:
        try:
            try:
                self.block(s.body)
            except _Raise as r:
                for h in s.handlers:
                    if self.handler_matches(h, r.name):
                        if h.name:
                            self.env[h.name] = Obj("Exception", name=r.name)
                        self.block(h.body)
                        break
                else:
                    raise
            else:
                self.block(s.orelse)
        finally:
            # NB: executes on interpreter control-flow exceptions as well, as Python would
            if s.finalbody:
                self.block(s.finalbody)

    def handler_matches(self, h: ast.ExceptHandler, name: str) -> bool:
        from .cfg import exc_ancestors, handler_classes

        classes = handler_classes(h)
        if classes is None:
            return True
        anc = exc_ancestors(name) or [name, "Exception", "BaseException"]
        return any(c in anc for c in classes)

    def exc_name(self, exc: ast.AST | None) -> str:
        from .cfg import exc_class_name

        return exc_class_name(exc) or "Exception"

    def delete(self, t: ast.AST) -> None:
        if isinstance(t, ast.Name):
            self.env.pop(t.id, None)
        elif isinstance(t, ast.Subscript):
            base = self.eval(t.value)
            key = self.eval(t.slice)
            if isinstance(base, dict):
                base.pop(self.key(key), None)
            else:
                raise AnalysisError("del on non-dict not interpretable")
        else:
            raise AnalysisError("del target not interpretable")

    def match(self, s: ast.Match) -> None:
        subj = self.eval(s.subject)
        for case in s.cases:
            binds: dict[str, Any] = {}
            if self.pattern(case.pattern, subj, binds):
                self.env.update(binds)
                if case.guard is None or self.truth(self.eval(case.guard), case.guard):
                    self.block(case.body)
                    return

    def pattern(self, p: ast.pattern, v: Any, binds: dict[str, Any]) -> bool:
        if isinstance(p, ast.MatchValue):
            return self.concrete_eq(self.eval(p.value), v, p)
        if isinstance(p, ast.MatchSingleton):
            return v is p.value
        if isinstance(p, ast.MatchSequence):
            if not isinstance(v, (tuple, list)) or len(v) != len(p.patterns):
                if isinstance(v, (tuple, list)):
                    return False
                raise AnalysisError("sequence pattern on abstract value")
            return all(self.pattern(pp, vv, binds) for pp, vv in zip(p.patterns, v))
        if isinstance(p, ast.MatchAs):
            if p.pattern is not None and not self.pattern(p.pattern, v, binds):
                return False
            if p.name:
                binds[p.name] = v
            return True
        if isinstance(p, ast.MatchOr):
            return any(self.pattern(pp, v, binds) for pp in p.patterns)
        if isinstance(p, ast.MatchClass):
            return self.match_class(p, v, binds)
        raise AnalysisError(f"pattern {type(p).__name__} not interpretable")

    def match_class(self, p: ast.MatchClass, v: Any, binds: dict[str, Any]) -> bool:
        raise AnalysisError("class pattern not interpretable in this domain")

    def concrete_eq(self, a: Any, b: Any, node: ast.AST) -> bool:
        if isinstance(a, (bool, int, float, str, type(None))) and isinstance(
                b, (bool, int, float, str, type(None))):
            return a == b
        return self.truth(self.compare(ast.Eq(), a, b, node), node)

    # ------------------------------------------------------------------ assignment
    def assign(self, t: ast.AST, v: Any) -> None:
        if isinstance(t, ast.Name):
            self.env[t.id] = v
        elif isinstance(t, (ast.Tuple, ast.List)):
            items = list(self.iterate(v, t))
            if len(items) != len(t.elts):
                raise AnalysisError(f"cannot unpack {len(items)} values into {len(t.elts)} targets")
            for tt, vv in zip(t.elts, items):
                self.assign(tt, vv)
        elif isinstance(t, ast.Attribute):
            base = self.eval(t.value)
            self.set_attr(base, t.attr, v, t)
        elif isinstance(t, ast.Subscript):
            base = self.eval(t.value)
            key = self.eval(t.slice)
            self.set_item(base, key, v, t)
        else:
            raise AnalysisError(f"assignment target {type(t).__name__} not interpretable")

    def set_attr(self, base: Any, attr: str, v: Any, node: ast.AST) -> None:
        if isinstance(base, Obj):
            base.fields[attr] = v
            return
        raise AnalysisError(f"attribute store on {type(base).__name__} not interpretable")

    def set_item(self, base: Any, key: Any, v: Any, node: ast.AST) -> None:
        if isinstance(base, dict):
            base[self.key(key)] = v
            return
        if isinstance(base, list) and isinstance(key, int):
            base[key] = v
            return
        raise AnalysisError("subscript store not interpretable")

    def key(self, k: Any) -> Any:
        return k

    # ------------------------------------------------------------------ expressions
    def eval(self, e: ast.AST | None) -> Any:  # noqa: C901
        if e is None:
            return None
        if isinstance(e, ast.Constant):
            return e.value
        if isinstance(e, ast.Name):
            return self.name(e.id, e)
        if isinstance(e, ast.Attribute):
            return self.get_attr(self.eval(e.value), e.attr, e)
        if isinstance(e, ast.Subscript):
            return self.get_item(self.eval(e.value), self.eval(e.slice), e)
        if isinstance(e, ast.Tuple):
            return tuple(self.eval(x) for x in e.elts)
        if isinstance(e, ast.List):
            return [self.eval(x) for x in e.elts]
        if isinstance(e, ast.Set):
            return {self.key(self.eval(x)) for x in e.elts}
        if isinstance(e, ast.Dict):
            return {self.key(self.eval(k)): self.eval(v) for k, v in zip(e.keys, e.values)}
        if isinstance(e, ast.UnaryOp):
            v = self.eval(e.operand)
            if isinstance(e.op, ast.Not):
                return not self.truth(v, e.operand)
            if isinstance(v, (int, float)) and not isinstance(v, bool):
                if isinstance(e.op, ast.USub):
                    return -v
                if isinstance(e.op, ast.UAdd):
                    return v
            return self.unaryop(e.op, v, e)
        if isinstance(e, ast.BinOp):
            return self.binop(e.op, self.eval(e.left), self.eval(e.right), e)
        if isinstance(e, ast.BoolOp):
            val: Any = None
            for sub in e.values:
                val = self.eval(sub)
                t = self.truth(val, sub)
                if isinstance(e.op, ast.And) and not t:
                    return val
                if isinstance(e.op, ast.Or) and t:
                    return val
            return val
        if isinstance(e, ast.Compare):
            left = self.eval(e.left)
            result: Any = True
            for op, right_e in zip(e.ops, e.comparators):
                right = self.eval(right_e)
                result = self.compare(op, left, right, e)
                if not self.truth(result, e):
                    return False
                left = right
            return True if result is not False else False
        if isinstance(e, ast.IfExp):
            return self.eval(e.body) if self.truth(self.eval(e.test), e.test) else self.eval(e.orelse)
        if isinstance(e, ast.Call):
            return self.call(e)
        if isinstance(e, ast.NamedExpr):
            v = self.eval(e.value)
            self.assign(e.target, v)
            return v
        if isinstance(e, ast.Lambda):
            return Closure(e, self.env)
        if isinstance(e, ast.JoinedStr):
            return "<fstring>"
        if isinstance(e, (ast.GeneratorExp, ast.ListComp, ast.SetComp)):
            return self.comprehension(e)
        if isinstance(e, ast.DictComp):
            return self.dict_comprehension(e)
        if isinstance(e, ast.Starred):
            return self.eval(e.value)
        if isinstance(e, ast.Await):
            return self.await_(e)
        raise AnalysisError(f"expression kind {type(e).__name__} not interpretable "
                            f"(line {getattr(e, 'lineno', '?')})")

    def await_(self, e: ast.Await) -> Any:
        return self.eval(e.value)

    def comprehension(self, e: ast.GeneratorExp | ast.ListComp | ast.SetComp) -> Any:
        out: list[Any] = []

        def rec(i: int) -> None:
            if i == len(e.generators):
                out.append(self.eval(e.elt))
                return
            g = e.generators[i]
            for item in self.iterate(self.eval(g.iter), g.iter):
                self.assign(g.target, item)
                if all(self.truth(self.eval(c), c) for c in g.ifs):
                    rec(i + 1)

        saved = dict(self.env)
        rec(0)
        self.frames[-1] = saved
        return out

    def dict_comprehension(self, e: ast.DictComp) -> Any:
        out: dict[Any, Any] = {}

        def rec(i: int) -> None:
            if i == len(e.generators):
                out[self.key(self.eval(e.key))] = self.eval(e.value)
                return
            g = e.generators[i]
            for item in self.iterate(self.eval(g.iter), g.iter):
                self.assign(g.target, item)
                if all(self.truth(self.eval(c), c) for c in g.ifs):
                    rec(i + 1)

        saved = dict(self.env)
        rec(0)
        self.frames[-1] = saved
        return out

    def name(self, ident: str, node: ast.AST) -> Any:
        for frame in (self.env, self.globals):
            if ident in frame:
                return frame[ident]
        if ident in ("True", "False", "None"):
            return {"True": True, "False": False, "None": None}[ident]
        return self.unknown_name(ident, node)

    def unknown_name(self, ident: str, node: ast.AST) -> Any:
        raise AnalysisError(f"name {ident} not bound in interpreted code (line {getattr(node, 'lineno', '?')})")

    def iterate(self, v: Any, node: ast.AST) -> Iterable[Any]:
        if isinstance(v, (list, tuple)):
            return list(v)
        if isinstance(v, dict):
            return list(v.keys())
        if isinstance(v, (set, frozenset)):
            return sorted(v, key=repr)
        raise AnalysisError(f"iteration over abstract value not interpretable (line {getattr(node, 'lineno', '?')})")

    def get_attr(self, base: Any, attr: str, node: ast.AST) -> Any:
        if isinstance(base, Obj):
            if attr in base.fields:
                return base.fields[attr]
            return self.obj_method(base, attr, node)
        if isinstance(base, dict) and attr in ("items", "values", "keys", "get", "pop", "setdefault"):
            return ("dictmethod", base, attr)
        if isinstance(base, list) and attr in ("append", "pop", "extend", "sort", "insert"):
            return ("listmethod", base, attr)
        if isinstance(base, (set,)) and attr in ("add", "remove", "discard"):
            return ("setmethod", base, attr)
        return self.attr_of(base, attr, node)

    def obj_method(self, base: Obj, attr: str, node: ast.AST) -> Any:
        return ("objmethod", base, attr)

    def attr_of(self, base: Any, attr: str, node: ast.AST) -> Any:
        raise AnalysisError(f"attribute .{attr} of {type(base).__name__} not interpretable "
                            f"(line {getattr(node, 'lineno', '?')})")

    def get_item(self, base: Any, key: Any, node: ast.AST) -> Any:
        if isinstance(base, dict):
            k = self.key(key)
            if k in base:
                return base[k]
            raise _Raise("KeyError", node)
        if isinstance(base, (list, tuple)) and isinstance(key, int):
            try:
                return base[key]
            except IndexError:
                raise _Raise("IndexError", node) from None
        raise AnalysisError(f"subscript not interpretable (line {getattr(node, 'lineno', '?')})")

    # ------------------------------------------------------------------ calls
    def call(self, e: ast.Call) -> Any:
        fn = self.eval(e.func)
        pos: list[Any] = []
        for a in e.args:
            if isinstance(a, ast.Starred):
                pos.extend(self.iterate(self.eval(a.value), a))
            else:
                pos.append(self.eval(a))
        kw = {k.arg: self.eval(k.value) for k in e.keywords if k.arg is not None}
        return self.apply(fn, pos, kw, e)

    def apply(self, fn: Any, pos: list[Any], kw: dict[str, Any], node: ast.AST) -> Any:
        if isinstance(fn, Closure):
            args = self.bind_args(fn.node, pos, kw)
            return self.call_node(fn.node, args, fn.env)
        if isinstance(fn, tuple) and fn and fn[0] == "dictmethod":
            return self.dict_method(fn[1], fn[2], pos, kw, node)
        if isinstance(fn, tuple) and fn and fn[0] == "listmethod":
            return self.list_method(fn[1], fn[2], pos, kw, node)
        if isinstance(fn, tuple) and fn and fn[0] == "setmethod":
            getattr(fn[1], fn[2])(self.key(pos[0]))
            return None
        if isinstance(fn, tuple) and fn and fn[0] == "builtin":
            return self.builtin(fn[1], pos, kw, node)
        return self.apply_other(fn, pos, kw, node)

    def apply_other(self, fn: Any, pos: list[Any], kw: dict[str, Any], node: ast.AST) -> Any:
        raise AnalysisError(f"call target not interpretable (line {getattr(node, 'lineno', '?')}): {fn!r}")

    def dict_method(self, d: dict[Any, Any], m: str, pos: list[Any], kw: dict[str, Any],
                    node: ast.AST) -> Any:
        if m == "items":
            return list(d.items())
        if m == "values":
            return list(d.values())
        if m == "keys":
            return list(d.keys())
        if m == "get":
            return d.get(self.key(pos[0]), pos[1] if len(pos) > 1 else None)
        if m == "setdefault":
            return d.setdefault(self.key(pos[0]), pos[1] if len(pos) > 1 else None)
        if m == "pop":
            k = self.key(pos[0])
            if k in d:
                return d.pop(k)
            if len(pos) > 1:
                return pos[1]
            raise _Raise("KeyError", node)
        raise AnalysisError(f"dict.{m} not interpretable")

    def list_method(self, lst: list[Any], m: str, pos: list[Any], kw: dict[str, Any],
                    node: ast.AST) -> Any:
        if m == "append":
            lst.append(pos[0])
            return None
        if m == "extend":
            lst.extend(self.iterate(pos[0], node))
            return None
        if m == "pop":
            if not lst:
                raise _Raise("IndexError", node)
            return lst.pop(*pos)
        if m == "insert":
            lst.insert(pos[0], pos[1])
            return None
        raise AnalysisError(f"list.{m} not interpretable")

    def builtin(self, name: str, pos: list[Any], kw: dict[str, Any], node: ast.AST) -> Any:
        if name == "len":
            v = pos[0]
            if isinstance(v, (list, tuple, dict, set, frozenset, str)):
                return len(v)
        if name == "iter":
            return list(self.iterate(pos[0], node))
        if name == "next":
            seq = list(self.iterate(pos[0], node))
            if seq:
                return seq[0]
            raise _Raise("StopIteration", node)
        if name in ("list", "tuple"):
            seq = list(self.iterate(pos[0], node)) if pos else []
            return seq if name == "list" else tuple(seq)
        if name == "sorted" and not kw:
            return self.sort(list(self.iterate(pos[0], node)), node)
        if name == "isinstance":
            return self.isinstance_(pos[0], pos[1], node)
        if name == "bool":
            return self.truth(pos[0], node)
        if name in ("all", "any") and len(pos) == 1 and not kw:
            vals = [self.truth(x, node) for x in self.iterate(pos[0], node)]
            return all(vals) if name == "all" else any(vals)
        raise AnalysisError(f"builtin {name} not interpretable in this domain")

    def sort(self, items: list[Any], node: ast.AST) -> list[Any]:
        raise AnalysisError("sorted() of abstract values not interpretable in this domain")

    def isinstance_(self, v: Any, cls: Any, node: ast.AST) -> bool:
        raise AnalysisError("isinstance not interpretable in this domain")

    # ------------------------------------------------------------------ domain hooks
    def truth(self, v: Any, node: ast.AST | None) -> bool:
        if isinstance(v, bool):
            return v
        if v is None:
            return False
        if isinstance(v, (int, float, str, list, tuple, dict, set, frozenset)):
            return bool(v)
        return self.truth_of(v, node)

    def truth_of(self, v: Any, node: ast.AST | None) -> bool:
        raise AnalysisError(f"truthiness of {v!r} not interpretable")

    def compare(self, op: ast.cmpop, a: Any, b: Any, node: ast.AST) -> Any:
        if isinstance(op, (ast.Is, ast.IsNot)):
            same = self.identical(a, b)
            return same if isinstance(op, ast.Is) else not same
        if isinstance(op, (ast.In, ast.NotIn)):
            res = self.contains(b, a, node)
            return res if isinstance(op, ast.In) else not res
        return self.compare_values(op, a, b, node)

    def identical(self, a: Any, b: Any) -> bool:
        if a is None or b is None:
            return a is None and b is None
        return a is b

    def contains(self, container: Any, item: Any, node: ast.AST) -> bool:
        if isinstance(container, (dict, set, frozenset)):
            return self.key(item) in container
        if isinstance(container, (list, tuple)):
            return any(self.concrete_eq(item, x, node) for x in container)
        raise AnalysisError("`in` on abstract container not interpretable")

    def compare_values(self, op: ast.cmpop, a: Any, b: Any, node: ast.AST) -> Any:
        num = (int, float)
        if isinstance(a, num) and isinstance(b, num) and not isinstance(a, bool) \
                and not isinstance(b, bool):
            return _py_cmp(op, a, b)
        if isinstance(a, (str, bool, type(None))) and isinstance(b, (str, bool, type(None))) \
                and isinstance(op, (ast.Eq, ast.NotEq)):
            return (a == b) if isinstance(op, ast.Eq) else (a != b)
        raise AnalysisError(f"comparison {type(op).__name__} of {a!r}, {b!r} not interpretable")

    def binop(self, op: ast.operator, a: Any, b: Any, node: ast.AST) -> Any:
        raise AnalysisError(f"binary operator {type(op).__name__} not interpretable in this domain")

    def unaryop(self, op: ast.unaryop, v: Any, node: ast.AST) -> Any:
        raise AnalysisError(f"unary operator {type(op).__name__} not interpretable in this domain")


def _py_cmp(op: ast.cmpop, a: Any, b: Any) -> bool:
    if isinstance(op, ast.Lt):
        return a < b
    if isinstance(op, ast.LtE):
        return a <= b
    if isinstance(op, ast.Gt):
        return a > b
    if isinstance(op, ast.GtE):
        return a >= b
    if isinstance(op, ast.Eq):
        return a == b
    if isinstance(op, ast.NotEq):
        return a != b
    raise AnalysisError("comparison operator not supported")


def _as_load(t: ast.AST) -> ast.AST:
    import copy

    n = copy.copy(t)
    if hasattr(n, "ctx"):
        n.ctx = ast.Load()  # type: ignore[attr-defined]
    return n
