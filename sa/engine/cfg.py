"""E-P: statement-level control-flow graph with exceptional edges, awaits and loop back-edges.

One CFG per function, built from the `ast` of the current working tree.  Nodes are simple
statements, branch tests, loop headers, `with` entries, `match` subjects/cases and exception
handler entries.  Edges carry labels:

    next | true | false | iter | done | back | case | nocase | return | break | continue
    exc:E (an Exception-family error)  exc:C (asyncio.CancelledError)  exc:B (other BaseException)

`finally` bodies are instantiated once per way of reaching them (normal / exception kinds /
return / break / continue), so path facts through `finally` are exact.

Exception model (stated assumption, see DESIGN.md E-P): a statement may raise an Exception-family
error iff it contains a call, an await, a subscript load, a division/modulo, an `assert` or a
`raise`; CancelledError can surface only at `await`/`async for`/`async with` and at calls of
`.result()`/`.exception()` on tasks; context managers do not swallow exceptions.
"""
from __future__ import annotations

import ast
from dataclasses import dataclass, field
from typing import Any, Callable, Iterable, Iterator

from .report import AnalysisError
from .resolver import dotted, walk_no_nested

# ------------------------------------------------------------------ exception hierarchy (frozen stdlib facts)
_EXC_PARENT = {
    "BaseException": None,
    "Exception": "BaseException",
    "CancelledError": "BaseException",
    "KeyboardInterrupt": "BaseException",
    "SystemExit": "BaseException",
    "GeneratorExit": "BaseException",
    "BaseExceptionGroup": "BaseException",
    "ExceptionGroup": "Exception",
    "ArithmeticError": "Exception",
    "ZeroDivisionError": "ArithmeticError",
    "OverflowError": "ArithmeticError",
    "AssertionError": "Exception",
    "AttributeError": "Exception",
    "LookupError": "Exception",
    "KeyError": "LookupError",
    "IndexError": "LookupError",
    "ValueError": "Exception",
    "TypeError": "Exception",
    "RuntimeError": "Exception",
    "NotImplementedError": "RuntimeError",
    "StopIteration": "Exception",
    "StopAsyncIteration": "Exception",
    "OSError": "Exception",
    "TimeoutError": "OSError",
    "InvalidStateError": "Exception",
}

KINDS = ("E", "C", "B")


def exc_ancestors(name: str, extra: dict[str, str | None] | None = None) -> list[str] | None:
    table = dict(_EXC_PARENT)
    if extra:
        table.update(extra)
    if name not in table:
        return None
    out = [name]
    cur = table[name]
    while cur is not None:
        out.append(cur)
        cur = table.get(cur)
    return out


def exc_class_name(expr: ast.AST | None) -> str | None:
    if expr is None:
        return None
    if isinstance(expr, ast.Call):
        expr = expr.func
    d = dotted(expr)
    return d.split(".")[-1] if d else None


def kind_of_class(name: str | None, extra: dict[str, str | None] | None = None) -> set[str]:
    """Abstract kinds an exception *class* can produce when raised."""
    if name is None:
        return {"E", "C", "B"}
    anc = exc_ancestors(name, extra)
    if anc is None:
        return {"E"}  # unknown user class: assume Exception family (package classes are)
    if "Exception" in anc:
        return {"E"}
    if name == "CancelledError":
        return {"C"}
    if name == "BaseException":
        return {"E", "C", "B"}
    if name == "BaseExceptionGroup":
        return {"E", "B"}
    return {"B"}


def handler_classes(h: ast.ExceptHandler) -> list[str] | None:
    """Class names caught by a handler; None for a bare `except:`."""
    if h.type is None:
        return None
    elts = h.type.elts if isinstance(h.type, ast.Tuple) else [h.type]
    out = []
    for e in elts:
        n = exc_class_name(e)
        out.append(n or "?")
    return out


def handler_catches(h: ast.ExceptHandler, kind: str, raised: str | None,
                    extra: dict[str, str | None] | None = None) -> str:
    """'yes' | 'maybe' | 'no': does handler `h` catch an exception of abstract `kind`
    (and concrete class `raised` when known)?"""
    classes = handler_classes(h)
    if classes is None:
        return "yes"
    verdict = "no"
    for c in classes:
        if c == "BaseException":
            return "yes"
        if c == "?":
            verdict = "maybe"
            continue
        if kind == "C":
            if c == "CancelledError":
                return "yes"
            continue
        if kind == "B":
            if c in ("KeyboardInterrupt", "SystemExit", "GeneratorExit", "BaseExceptionGroup"):
                verdict = "maybe"
            continue
        # kind == "E"
        if c == "Exception":
            return "yes"
        if c == "CancelledError" or c in ("KeyboardInterrupt", "SystemExit", "GeneratorExit"):
            continue
        if raised is not None:
            anc = exc_ancestors(raised, extra)
            if anc is not None:
                if c in anc:
                    return "yes"
                canc = exc_ancestors(c, extra)
                if canc is not None and raised in canc:
                    verdict = "maybe"  # handler catches a subclass of what is raised
                continue
        verdict = "maybe"
    return verdict


# ------------------------------------------------------------------ graph
@dataclass
class Node:
    id: int
    kind: str
    ast: ast.AST | None
    label: str = ""
    copy_of: str = ""  # finally instantiation reason
    awaits: bool = False  # async for / async with entry

    @property
    def lineno(self) -> int:
        return getattr(self.ast, "lineno", 0) if self.ast is not None else 0

    def text(self, limit: int = 90) -> str:
        if self.ast is None:
            return f"<{self.kind}>"
        if self.kind in ("test", "for", "with", "match", "case", "handler", "while"):
            src = self.label
        else:
            src = ast.unparse(self.ast)
        src = " ".join(src.split())
        return src if len(src) <= limit else src[: limit - 3] + "..."


Frontier = list[tuple[int, str]]


class CFG:
    def __init__(self, fn: ast.FunctionDef | ast.AsyncFunctionDef, file: str = "",
                 exc_extra: dict[str, str | None] | None = None,
                 may_raise: Callable[[ast.AST], bool] | None = None) -> None:
        self.fn = fn
        self.file = file
        self.exc_extra = exc_extra or {}
        self.nodes: list[Node] = []
        self.succ: dict[int, list[tuple[int, str]]] = {}
        self.pred: dict[int, list[tuple[int, str]]] = {}
        self._by_ast: dict[int, list[int]] = {}
        self._may_raise_override = may_raise
        self.back_edges: set[tuple[int, int]] = set()
        self.entry = self._new("entry", None)
        self.exit = self._new("exit", None)
        self.raise_exit = self._new("raise", None)
        _Builder(self).build()

    # -------------------------------------------------------------- construction helpers
    def _new(self, kind: str, node: ast.AST | None, label: str = "", copy_of: str = "") -> int:
        n = Node(len(self.nodes), kind, node, label, copy_of)
        self.nodes.append(n)
        self.succ[n.id] = []
        self.pred[n.id] = []
        if node is not None:
            self._by_ast.setdefault(id(node), []).append(n.id)
        return n.id

    def _edge(self, a: int, b: int, label: str) -> None:
        if (b, label) not in self.succ[a]:
            self.succ[a].append((b, label))
            self.pred[b].append((a, label))

    # -------------------------------------------------------------- queries
    def nodes_of(self, node: ast.AST) -> list[int]:
        """CFG nodes whose statement *is* `node` (several when inside a `finally`)."""
        return list(self._by_ast.get(id(node), []))

    def node_containing(self, sub: ast.AST) -> list[int]:
        """CFG nodes whose own expression(s) contain the AST node `sub`."""
        out = []
        for n in self.nodes:
            if n.ast is None:
                continue
            for part in own_parts(n):
                if any(x is sub for x in ast.walk(part)):
                    out.append(n.id)
                    break
        return out

    def find(self, pred: Callable[[Node], bool]) -> list[int]:
        return [n.id for n in self.nodes if pred(n)]

    def stmt_nodes(self, pred: Callable[[ast.AST], bool]) -> list[int]:
        return [n.id for n in self.nodes if n.ast is not None and pred(n.ast)]

    def reachable(self, srcs: Iterable[int], avoid: Iterable[int] = (),
                  edge_ok: Callable[[int, int, str], bool] | None = None,
                  include_src: bool = True) -> set[int]:
        avoid_s = set(avoid)
        seen: set[int] = set()
        stack = []
        for s in srcs:
            if include_src:
                if s not in avoid_s:
                    seen.add(s)
                    stack.append(s)
            else:
                for m, lab in self.succ[s]:
                    if m not in avoid_s and (edge_ok is None or edge_ok(s, m, lab)) and m not in seen:
                        seen.add(m)
                        stack.append(m)
        while stack:
            n = stack.pop()
            for m, lab in self.succ[n]:
                if m in seen or m in avoid_s:
                    continue
                if edge_ok is not None and not edge_ok(n, m, lab):
                    continue
                seen.add(m)
                stack.append(m)
        return seen

    def co_reachable(self, dsts: Iterable[int], avoid: Iterable[int] = (),
                     edge_ok: Callable[[int, int, str], bool] | None = None) -> set[int]:
        avoid_s = set(avoid)
        seen = {d for d in dsts if d not in avoid_s}
        stack = list(seen)
        while stack:
            n = stack.pop()
            for m, lab in self.pred[n]:
                if m in seen or m in avoid_s:
                    continue
                if edge_ok is not None and not edge_ok(m, n, lab):
                    continue
                seen.add(m)
                stack.append(m)
        return seen

    def path(self, src: int, dsts: Iterable[int], avoid: Iterable[int] = (),
             edge_ok: Callable[[int, int, str], bool] | None = None,
             include_src: bool = True) -> list[tuple[int, str]] | None:
        """Shortest path (BFS) src -> any of dsts never entering `avoid`.

        Returns [(node, label of the edge taken to reach it)], starting with (src, "").
        With include_src=False the path must take at least one edge.
        """
        dst_s = set(dsts)
        avoid_s = set(avoid)
        if include_src and src in dst_s:
            return [(src, "")]
        prev: dict[int, tuple[int, str]] = {}
        queue = [src]
        seen = {src}
        qi = 0
        while qi < len(queue):
            n = queue[qi]
            qi += 1
            for m, lab in self.succ[n]:
                if m in avoid_s:
                    continue
                if edge_ok is not None and not edge_ok(n, m, lab):
                    continue
                if m in dst_s:
                    out: list[tuple[int, str]] = [(m, lab)]
                    cur = n
                    while cur != src:
                        p, plab = prev[cur]
                        out.append((cur, plab))
                        cur = p
                    out.append((src, ""))
                    return list(reversed(out))
                if m in seen:
                    continue
                seen.add(m)
                prev[m] = (n, lab)
                queue.append(m)
        return None

    def describe_path(self, path: list[tuple[int, str]] | None) -> list[str]:
        if not path:
            return []
        out = []
        for nid, lab in path:
            n = self.nodes[nid]
            loc = f"{self.file}:{n.lineno}" if n.lineno else self.file
            edge = f" --{lab}--> " if lab else ""
            out.append(f"{edge}{loc} [{n.kind}] {n.text()}")
        return out

    # -------------------------------------------------------------- boolean-flag sensitive search
    def _flag_after(self, nid: int, state: tuple[tuple[str, bool], ...],
                    track: set[str]) -> tuple[tuple[str, bool], ...]:
        n = self.nodes[nid]
        a = n.ast
        if n.kind == "stmt" and isinstance(a, (ast.Assign, ast.AnnAssign)):
            tgts = a.targets if isinstance(a, ast.Assign) else [a.target]
            val = a.value
            for t in tgts:
                if isinstance(t, ast.Name) and t.id in track:
                    d = dict(state)
                    if isinstance(val, ast.Constant) and isinstance(val.value, bool):
                        d[t.id] = val.value
                    else:
                        d.pop(t.id, None)
                    return tuple(sorted(d.items()))
        return state

    def _flag_edge_ok(self, nid: int, lab: str, state: tuple[tuple[str, bool], ...],
                      track: set[str]) -> bool:
        n = self.nodes[nid]
        if n.kind != "test" or n.ast is None or lab not in ("true", "false"):
            return True
        e = n.ast
        neg = False
        while isinstance(e, ast.UnaryOp) and isinstance(e.op, ast.Not):
            neg = not neg
            e = e.operand
        if isinstance(e, ast.Name) and e.id in track:
            known = dict(state).get(e.id)
            if known is None:
                return True
            return (known != neg) == (lab == "true")
        return True

    def flag_states(self, src: int, track: set[str],
                    init: tuple[tuple[str, bool], ...] = (),
                    avoid: Iterable[int] = ()) -> dict[int, set[tuple[tuple[str, bool], ...]]]:
        """Forward exploration: the flag valuations with which each node can be *entered*."""
        avoid_s = set(avoid)
        seen: dict[int, set[tuple[tuple[str, bool], ...]]] = {src: {init}}
        stack = [(src, init)]
        while stack:
            n, st = stack.pop()
            for m, lab in self.succ[n]:
                if m in avoid_s or not self._flag_edge_ok(n, lab, st, track):
                    continue
                st2 = st if lab.startswith("exc:") else self._flag_after(n, st, track)
                if st2 not in seen.setdefault(m, set()):
                    seen[m].add(st2)
                    stack.append((m, st2))
        return seen

    def path_flags(self, src: int, dsts: Iterable[int], track: set[str],
                   init: tuple[tuple[str, bool], ...] = (), avoid: Iterable[int] = (),
                   edge_ok: Callable[[int, int, str], bool] | None = None
                   ) -> list[tuple[int, str]] | None:
        """Like path(), but boolean flags assigned constants are tracked along the path and
        `if flag:` / `if not flag:` tests only take the consistent branch."""
        dst_s = set(dsts)
        avoid_s = set(avoid)
        start = (src, init)
        prev: dict[tuple[int, Any], tuple[tuple[int, Any], str]] = {}
        seen = {start}
        queue = [start]
        qi = 0
        while qi < len(queue):
            cur = queue[qi]
            qi += 1
            n, st = cur
            for m, lab in self.succ[n]:
                if m in avoid_s or not self._flag_edge_ok(n, lab, st, track):
                    continue
                if edge_ok is not None and not edge_ok(n, m, lab):
                    continue
                st2 = st if lab.startswith("exc:") else self._flag_after(n, st, track)
                nxt = (m, st2)
                if m in dst_s:
                    out = [(m, lab)]
                    c = cur
                    while c != start:
                        p, plab = prev[c]
                        out.append((c[0], plab))
                        c = p
                    out.append((src, ""))
                    return list(reversed(out))
                if nxt in seen:
                    continue
                seen.add(nxt)
                prev[nxt] = (cur, lab)
                queue.append(nxt)
        return None

    def bool_flags(self) -> set[str]:
        """Local names that are only ever assigned boolean constants."""
        vals: dict[str, bool] = {}
        for n in self.nodes:
            a = n.ast
            if n.kind == "stmt" and isinstance(a, (ast.Assign, ast.AnnAssign, ast.AugAssign)):
                tgts = a.targets if isinstance(a, ast.Assign) else [a.target]
                for t in tgts:
                    for x in ast.walk(t):
                        if isinstance(x, ast.Name):
                            is_const = (not isinstance(a, ast.AugAssign) and isinstance(
                                a.value, ast.Constant) and isinstance(a.value.value, bool)
                                and x is t)
                            vals[x.id] = vals.get(x.id, True) and is_const
            elif n.kind == "for" and n.ast is not None:
                for x in ast.walk(n.ast.target):  # type: ignore[attr-defined]
                    if isinstance(x, ast.Name):
                        vals[x.id] = False
        return {k for k, v in vals.items() if v}

    def dominators(self) -> dict[int, set[int]]:
        """dom[n] = nodes that lie on every path entry -> n (including n)."""
        reach = self.reachable([self.entry])
        dom: dict[int, set[int]] = {n: set(reach) for n in reach}
        dom[self.entry] = {self.entry}
        changed = True
        order = sorted(reach)
        while changed:
            changed = False
            for n in order:
                if n == self.entry:
                    continue
                preds = [p for p, _ in self.pred[n] if p in reach]
                new = set.intersection(*(dom[p] for p in preds)) if preds else set()
                new = new | {n}
                if new != dom[n]:
                    dom[n] = new
                    changed = True
        return dom

    def must_pass(self, src: int, through: Iterable[int], exits: Iterable[int],
                  edge_ok: Callable[[int, int, str], bool] | None = None,
                  include_src: bool = False) -> list[tuple[int, str]] | None:
        """None if every path src -> exits passes a `through` node; else a witness path."""
        thr = set(through)
        if include_src and src in thr:
            return None
        return self.path(src, exits, avoid=thr, edge_ok=edge_ok, include_src=False)

    def is_await(self, nid: int) -> bool:
        n = self.nodes[nid]
        if n.ast is None:
            return False
        if n.awaits:
            return True
        return any(isinstance(x, ast.Await) for part in own_parts(n) for x in walk_no_nested(part))

    def loop_back_edges(self) -> list[tuple[int, int]]:
        return sorted(self.back_edges)

    def dump(self) -> str:
        out = []
        for n in self.nodes:
            succ = ", ".join(f"{lab}->{m}" for m, lab in self.succ[n.id])
            out.append(f"{n.id:3d} {n.kind:8s} L{n.lineno:<4d} {n.text(60):60s} | {succ}")
        return "\n".join(out)


def own_parts(n: Node) -> list[ast.AST]:
    """The expressions evaluated *at* this node (not its nested block bodies)."""
    a = n.ast
    if a is None:
        return []
    if n.kind == "test":
        return [a]  # the test expression itself
    if n.kind == "while":
        return [a.test]  # type: ignore[attr-defined]
    if n.kind == "for":
        return [a.iter, a.target]  # type: ignore[attr-defined]
    if n.kind == "with":
        return [a]  # a withitem
    if n.kind == "match":
        return [a.subject]  # type: ignore[attr-defined]
    if n.kind == "case":
        parts: list[ast.AST] = [a.pattern]  # type: ignore[attr-defined]
        if a.guard is not None:  # type: ignore[attr-defined]
            parts.append(a.guard)  # type: ignore[attr-defined]
        return parts
    if n.kind == "handler":
        return [a.type] if getattr(a, "type", None) is not None else []
    return [a]


# ------------------------------------------------------------------ raising model
def _is_logging(call: ast.Call) -> bool:
    d = dotted(call.func)
    return bool(d) and d.split(".")[0] in ("_logger", "logging", "_log")


def default_may_raise(part: ast.AST) -> set[str]:
    kinds: set[str] = set()
    if isinstance(part, ast.AnnAssign):  # annotations are not evaluated in function bodies
        if part.value is None:
            return kinds
        return default_may_raise(part.value) | default_may_raise(part.target)
    for x in walk_no_nested(part):
        if isinstance(x, ast.Call) and _is_logging(x):
            continue  # trusted: logging calls do not raise (their arguments are still walked)
        if isinstance(x, (ast.Call, ast.Assert, ast.Raise)):
            kinds.add("E")
        elif isinstance(x, ast.Subscript) and isinstance(x.ctx, (ast.Load, ast.Del)):
            kinds.add("E")
        elif isinstance(x, ast.BinOp) and isinstance(x.op, (ast.Div, ast.FloorDiv, ast.Mod)):
            kinds.add("E")
        elif isinstance(x, ast.Await):
            kinds.update(("E", "C", "B"))  # an awaited coroutine may raise anything
        if isinstance(x, ast.Call) and isinstance(x.func, ast.Attribute) and x.func.attr in (
            "result", "exception"
        ) and not x.args and not x.keywords:
            kinds.add("C")  # Task.result()/Task.exception() re-raise a cancellation
    return kinds


# ------------------------------------------------------------------ builder
class _Ctx:
    def __init__(self, parent: "_Ctx | None") -> None:
        self.parent = parent

    def do_return(self, b: "_Builder", fr: Frontier) -> None:
        assert self.parent is not None
        self.parent.do_return(b, fr)

    def do_break(self, b: "_Builder", fr: Frontier) -> None:
        assert self.parent is not None
        self.parent.do_break(b, fr)

    def do_continue(self, b: "_Builder", fr: Frontier) -> None:
        assert self.parent is not None
        self.parent.do_continue(b, fr)

    def do_raise(self, b: "_Builder", src: int, kind: str, raised: str | None) -> None:
        assert self.parent is not None
        self.parent.do_raise(b, src, kind, raised)


class _FuncCtx(_Ctx):
    def do_return(self, b: "_Builder", fr: Frontier) -> None:
        b.connect(fr, b.g.exit, relabel="return")

    def do_break(self, b: "_Builder", fr: Frontier) -> None:
        raise AnalysisError("break outside loop")

    def do_continue(self, b: "_Builder", fr: Frontier) -> None:
        raise AnalysisError("continue outside loop")

    def do_raise(self, b: "_Builder", src: int, kind: str, raised: str | None) -> None:
        b.g._edge(src, b.g.raise_exit, f"exc:{kind}")


class _LoopCtx(_Ctx):
    def __init__(self, parent: _Ctx, header: int) -> None:
        super().__init__(parent)
        self.header = header
        self.breaks: Frontier = []

    def do_break(self, b: "_Builder", fr: Frontier) -> None:
        self.breaks.extend((n, "break") for n, _ in fr)

    def do_continue(self, b: "_Builder", fr: Frontier) -> None:
        for n, _ in fr:
            b.g._edge(n, self.header, "continue")
            b.g.back_edges.add((n, self.header))


class _TryCtx(_Ctx):
    def __init__(self, parent: _Ctx, handlers: list[tuple[ast.ExceptHandler, int]]) -> None:
        super().__init__(parent)
        self.handlers = handlers

    def do_raise(self, b: "_Builder", src: int, kind: str, raised: str | None) -> None:
        for h, hnode in self.handlers:
            verdict = handler_catches(h, kind, raised, b.g.exc_extra)
            if verdict == "no":
                continue
            b.g._edge(src, hnode, f"exc:{kind}")
            if verdict == "yes":
                return
        assert self.parent is not None
        self.parent.do_raise(b, src, kind, raised)


class _FinallyCtx(_Ctx):
    """Collects every way of leaving the protected region; resolved by the builder."""

    def __init__(self, parent: _Ctx) -> None:
        super().__init__(parent)
        self.returns: Frontier = []
        self.breaks: Frontier = []
        self.continues: Frontier = []
        self.raises: dict[tuple[str, str | None], list[int]] = {}

    def do_return(self, b: "_Builder", fr: Frontier) -> None:
        self.returns.extend(fr)

    def do_break(self, b: "_Builder", fr: Frontier) -> None:
        self.breaks.extend(fr)

    def do_continue(self, b: "_Builder", fr: Frontier) -> None:
        self.continues.extend(fr)

    def do_raise(self, b: "_Builder", src: int, kind: str, raised: str | None) -> None:
        self.raises.setdefault((kind, raised), []).append(src)


class _HandlerCtx(_Ctx):
    """Inside an except body: a bare `raise` re-raises what the handler caught."""

    def __init__(self, parent: _Ctx, handler: ast.ExceptHandler) -> None:
        super().__init__(parent)
        self.handler = handler


class _Builder:
    def __init__(self, g: CFG) -> None:
        self.g = g

    def build(self) -> None:
        ctx = _FuncCtx(None)
        fr = self.block(self.g.fn.body, [(self.g.entry, "next")], ctx)
        self.connect(fr, self.g.exit, relabel=None)

    def connect(self, fr: Frontier, target: int, relabel: str | None = None) -> None:
        for n, lab in fr:
            self.g._edge(n, target, relabel if relabel is not None and lab == "next" else lab)

    def raising(self, nid: int, ctx: _Ctx, parts: list[ast.AST]) -> None:
        kinds: set[str] = set()
        for p in parts:
            if self.g._may_raise_override is not None:
                if self.g._may_raise_override(p):
                    kinds.add("E")
                kinds.update(k for k in default_may_raise(p) if k != "E")
            else:
                kinds.update(default_may_raise(p))
        for k in sorted(kinds):
            ctx.do_raise(self, nid, k, None)

    def block(self, stmts: list[ast.stmt], fr: Frontier, ctx: _Ctx) -> Frontier:
        for s in stmts:
            if not fr:
                # unreachable code: still build it (so anchors resolve) but disconnected
                fr = []
            fr = self.stmt(s, fr, ctx)
        return fr

    # -------------------------------------------------------------- statements
    def stmt(self, s: ast.stmt, fr: Frontier, ctx: _Ctx) -> Frontier:
        g = self.g
        if isinstance(s, (ast.FunctionDef, ast.AsyncFunctionDef, ast.ClassDef)):
            n = g._new("stmt", s, f"def {s.name}")
            self.connect(fr, n)
            return [(n, "next")]
        if isinstance(s, ast.If):
            t = g._new("test", s.test, ast.unparse(s.test))
            g._by_ast.setdefault(id(s), []).append(t)
            self.connect(fr, t)
            self.raising(t, ctx, [s.test])
            out = self.block(s.body, [(t, "true")], ctx)
            out2 = self.block(s.orelse, [(t, "false")], ctx) if s.orelse else [(t, "false")]
            return out + out2
        if isinstance(s, ast.While):
            t = g._new("while", s, ast.unparse(s.test))
            self.connect(fr, t)
            self.raising(t, ctx, [s.test])
            loop = _LoopCtx(ctx, t)
            body_out = self.block(s.body, [(t, "true")], loop)
            for n, lab in body_out:
                g._edge(n, t, "back" if lab == "next" else lab)
                g.back_edges.add((n, t))
            const_true = isinstance(s.test, ast.Constant) and bool(s.test.value)
            out: Frontier = []
            if not const_true:
                out = self.block(s.orelse, [(t, "false")], ctx) if s.orelse else [(t, "false")]
            return out + loop.breaks
        if isinstance(s, (ast.For, ast.AsyncFor)):
            h = g._new("for", s, f"for {ast.unparse(s.target)} in {ast.unparse(s.iter)}")
            self.connect(fr, h)
            self.raising(h, ctx, [s.iter])
            if isinstance(s, ast.AsyncFor):
                g.nodes[h].awaits = True
                ctx.do_raise(self, h, "C", None)
                ctx.do_raise(self, h, "E", None)
            loop = _LoopCtx(ctx, h)
            body_out = self.block(s.body, [(h, "iter")], loop)
            for n, lab in body_out:
                g._edge(n, h, "back" if lab == "next" else lab)
                g.back_edges.add((n, h))
            out = self.block(s.orelse, [(h, "done")], ctx) if s.orelse else [(h, "done")]
            return out + loop.breaks
        if isinstance(s, (ast.With, ast.AsyncWith)):
            cur = fr
            for item in s.items:
                w = g._new("with", item,
                           ("async with " if isinstance(s, ast.AsyncWith) else "with ")
                           + ast.unparse(item))
                self.connect(cur, w)
                self.raising(w, ctx, [item.context_expr])
                if isinstance(s, ast.AsyncWith):
                    ctx.do_raise(self, w, "C", None)
                    ctx.do_raise(self, w, "E", None)
                    g.nodes[w].awaits = True
                cur = [(w, "next")]
            return self.block(s.body, cur, ctx)
        if isinstance(s, ast.Match):
            m = g._new("match", s, f"match {ast.unparse(s.subject)}")
            self.connect(fr, m)
            self.raising(m, ctx, [s.subject])
            out = []
            cur: Frontier = [(m, "next")]
            for case in s.cases:
                label = "case " + ast.unparse(case.pattern) + (
                    " if " + ast.unparse(case.guard) if case.guard is not None else "")
                c = g._new("case", case, label)
                self.connect(cur, c)
                if case.guard is not None:
                    self.raising(c, ctx, [case.guard])
                out += self.block(case.body, [(c, "case")], ctx)
                irrefutable = case.guard is None and _irrefutable(case.pattern)
                cur = [] if irrefutable else [(c, "nocase")]
            return out + cur
        if isinstance(s, ast.Try) or (hasattr(ast, "TryStar") and isinstance(s, ast.TryStar)):
            return self.try_stmt(s, fr, ctx)  # type: ignore[arg-type]
        if isinstance(s, ast.Return):
            n = g._new("stmt", s)
            self.connect(fr, n)
            if s.value is not None:
                self.raising(n, ctx, [s.value])
            ctx.do_return(self, [(n, "return")])
            return []
        if isinstance(s, ast.Raise):
            n = g._new("stmt", s)
            self.connect(fr, n)
            if s.exc is None:
                h = _enclosing_handler(ctx)
                kinds: set[str] = set()
                if h is None:
                    kinds = {"E"}
                else:
                    classes = handler_classes(h)
                    if classes is None:
                        kinds = {"E", "C", "B"}
                    else:
                        for c in classes:
                            kinds |= kind_of_class(c if c != "?" else None, g.exc_extra)
                for k in sorted(kinds):
                    ctx.do_raise(self, n, k, None)
            else:
                cname = exc_class_name(s.exc)
                is_class_like = cname is not None and (
                    exc_ancestors(cname, g.exc_extra) is not None or cname[:1].isupper())
                if is_class_like:
                    for k in sorted(kind_of_class(cname, g.exc_extra)):
                        ctx.do_raise(self, n, k, cname)
                else:  # `raise err` of a variable: unknown class
                    var_kinds = {"E"}
                    h = _enclosing_handler(ctx)
                    if h is not None and isinstance(s.exc, ast.Name) and h.name == s.exc.id:
                        classes = handler_classes(h)
                        var_kinds = set()
                        for c in classes or ["BaseException"]:
                            var_kinds |= kind_of_class(c if c != "?" else None, g.exc_extra)
                    for k in sorted(var_kinds):
                        ctx.do_raise(self, n, k, None)
            return []
        if isinstance(s, ast.Break):
            n = g._new("stmt", s)
            self.connect(fr, n)
            ctx.do_break(self, [(n, "break")])
            return []
        if isinstance(s, ast.Continue):
            n = g._new("stmt", s)
            self.connect(fr, n)
            ctx.do_continue(self, [(n, "continue")])
            return []
        # simple statement
        n = g._new("stmt", s)
        self.connect(fr, n)
        self.raising(n, ctx, [s])
        return [(n, "next")]

    def try_stmt(self, s: ast.Try, fr: Frontier, ctx: _Ctx) -> Frontier:
        g = self.g
        outer = ctx
        fin: _FinallyCtx | None = None
        if s.finalbody:
            fin = _FinallyCtx(ctx)
            outer = fin
        handlers = [(h, g._new("handler", h, "except " + (ast.unparse(h.type) if h.type else "")
                               + (f" as {h.name}" if h.name else ""))) for h in s.handlers]
        tctx = _TryCtx(outer, handlers)
        body_out = self.block(s.body, fr, tctx)
        if s.orelse:
            body_out = self.block(s.orelse, body_out, outer)
        normal: Frontier = list(body_out)
        for h, hnode in handlers:
            hctx = _HandlerCtx(outer, h)
            normal += self.block(h.body, [(hnode, "next")], hctx)
        if fin is None:
            return normal
        # instantiate the finally body once per way of reaching it
        out: Frontier = []
        if normal:
            out += self.block(s.finalbody, normal, ctx)
        if fin.returns:
            end = self._finally_copy(s, fin.returns, ctx, "return")
            ctx.do_return(self, [(n, "return") for n, _ in end])
        if fin.breaks:
            end = self._finally_copy(s, fin.breaks, ctx, "break")
            ctx.do_break(self, end)
        if fin.continues:
            end = self._finally_copy(s, fin.continues, ctx, "continue")
            ctx.do_continue(self, end)
        for (kind, raised), srcs in fin.raises.items():
            end = self._finally_copy(s, [(n, f"exc:{kind}") for n in srcs], ctx, f"exc:{kind}")
            for n, _ in end:
                ctx.do_raise(self, n, kind, raised)
        return out

    def _finally_copy(self, s: ast.Try, fr: Frontier, ctx: _Ctx, reason: str) -> Frontier:
        before = len(self.g.nodes)
        end = self.block(s.finalbody, fr, ctx)
        for n in self.g.nodes[before:]:
            n.copy_of = reason
        return end


def _enclosing_handler(ctx: _Ctx | None) -> ast.ExceptHandler | None:
    while ctx is not None:
        if isinstance(ctx, _HandlerCtx):
            return ctx.handler
        ctx = ctx.parent
    return None


def _irrefutable(p: ast.pattern) -> bool:
    if isinstance(p, ast.MatchAs):
        return p.pattern is None or _irrefutable(p.pattern)
    if isinstance(p, ast.MatchOr):
        return any(_irrefutable(x) for x in p.patterns)
    return False


# ------------------------------------------------------------------ convenience
def stmt_of(parents: dict[ast.AST, ast.AST], node: ast.AST) -> ast.AST:
    """Smallest enclosing statement of an expression node."""
    cur = node
    while not isinstance(cur, ast.stmt):
        cur = parents[cur]
    return cur


def iter_stmts(fn: ast.AST) -> Iterator[ast.stmt]:
    for n in walk_no_nested(fn):
        if isinstance(n, ast.stmt) and n is not fn:
            yield n
