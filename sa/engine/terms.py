"""E-T: symbolic terms in polynomial normal form over opaque atoms (no solver).

A Poly is a mapping monomial -> rational coefficient; a monomial is a sorted tuple of
(atom, exponent).  Atoms are strings: normalised source text of attribute reads, subscripts and
opaque calls, or structured names such as ``min(a, b)`` / ``Σ[term | domain]``.  `2*x`, `x*2`,
`x+x` coincide; `a-(b-c)` expands; division by a constant scales, division by a term multiplies
by the atom ``inv(term)``.  Equality of terms is syntactic equality of normal forms.
"""
from __future__ import annotations

import ast
from fractions import Fraction
from typing import Any, Callable, Iterable

Mono = tuple[tuple[str, int], ...]


class Poly:
    __slots__ = ("terms",)

    def __init__(self, terms: dict[Mono, Fraction] | None = None) -> None:
        self.terms: dict[Mono, Fraction] = {m: c for m, c in (terms or {}).items() if c != 0}

    # ---------------------------------------------------------------- constructors
    @staticmethod
    def const(c: Any) -> "Poly":
        return Poly({(): Fraction(c)})

    @staticmethod
    def atom(name: str) -> "Poly":
        return Poly({((name, 1),): Fraction(1)})

    # ---------------------------------------------------------------- algebra
    def __add__(self, other: "Poly") -> "Poly":
        out = dict(self.terms)
        for m, c in other.terms.items():
            out[m] = out.get(m, Fraction(0)) + c
        return Poly(out)

    def __neg__(self) -> "Poly":
        return Poly({m: -c for m, c in self.terms.items()})

    def __sub__(self, other: "Poly") -> "Poly":
        return self + (-other)

    def __mul__(self, other: "Poly") -> "Poly":
        out: dict[Mono, Fraction] = {}
        for m1, c1 in self.terms.items():
            for m2, c2 in other.terms.items():
                m = _mul_mono(m1, m2)
                out[m] = out.get(m, Fraction(0)) + c1 * c2
        return Poly(out)

    def scale(self, k: Fraction) -> "Poly":
        return Poly({m: c * k for m, c in self.terms.items()})

    def is_const(self) -> bool:
        return all(m == () for m in self.terms)

    def const_value(self) -> Fraction | None:
        if not self.terms:
            return Fraction(0)
        if self.is_const():
            return self.terms[()]
        return None

    def is_zero(self) -> bool:
        return not self.terms

    def atoms(self) -> set[str]:
        return {a for m in self.terms for a, _ in m}

    def as_atom(self) -> str | None:
        if len(self.terms) == 1:
            (m, c), = self.terms.items()
            if c == 1 and len(m) == 1 and m[0][1] == 1:
                return m[0][0]
        return None

    def coeff_of(self, atom: str) -> Fraction:
        return self.terms.get(((atom, 1),), Fraction(0))

    def degree_in(self, pred: Callable[[str], bool]) -> set[int]:
        """Set of total degrees (over atoms satisfying pred) among the monomials."""
        return {sum(e for a, e in m if pred(a)) for m in self.terms}

    def __eq__(self, other: object) -> bool:
        return isinstance(other, Poly) and self.terms == other.terms

    def __hash__(self) -> int:
        return hash(frozenset(self.terms.items()))

    def __repr__(self) -> str:
        if not self.terms:
            return "0"
        parts = []
        for m, c in sorted(self.terms.items(), key=lambda kv: (len(kv[0]), kv[0])):
            mono = "*".join(a if e == 1 else f"{a}^{e}" for a, e in m)
            if not mono:
                parts.append(str(c))
            elif c == 1:
                parts.append(mono)
            elif c == -1:
                parts.append(f"-{mono}")
            else:
                parts.append(f"{c}*{mono}")
        return " + ".join(parts).replace("+ -", "- ")


def _mul_mono(a: Mono, b: Mono) -> Mono:
    d: dict[str, int] = {}
    for n, e in a + b:
        d[n] = d.get(n, 0) + e
    return tuple(sorted((n, e) for n, e in d.items() if e != 0))


ZERO = Poly()
ONE = Poly.const(1)

# wrappers that do not change the numeric value (unit conversions of the same quantity)
TRANSPARENT_CALLS = {"Power.from_watts", "float", "Energy.from_watt_hours", "Percentage.from_percent"}
TRANSPARENT_METHODS = {"as_watts", "as_watt_hours", "as_percent"}
ZERO_CALLS = {"Power.zero", "Energy.zero", "Percentage.zero"}


class TermEval:
    """Evaluates expressions to Poly given an environment of local definitions."""

    def __init__(self, env: dict[str, Poly] | None = None,
                 atom_hook: Callable[[ast.AST, "TermEval"], Poly | None] | None = None) -> None:
        self.env: dict[str, Poly] = dict(env or {})
        self.atom_hook = atom_hook

    def text(self, e: ast.AST) -> str:
        """Normalised text of an opaque expression with local definitions substituted."""
        return " ".join(ast.unparse(_Subst(self).visit(_copy(e))).split())

    def ev(self, e: ast.AST) -> Poly:  # noqa: C901
        if self.atom_hook is not None:
            got = self.atom_hook(e, self)
            if got is not None:
                return got
        if isinstance(e, ast.Constant):
            if isinstance(e.value, bool) or not isinstance(e.value, (int, float)):
                return Poly.atom(repr(e.value))
            return Poly.const(Fraction(str(e.value)))
        if isinstance(e, ast.Name):
            if e.id in self.env:
                return self.env[e.id]
            return Poly.atom(e.id)
        if isinstance(e, ast.UnaryOp) and isinstance(e.op, ast.USub):
            return -self.ev(e.operand)
        if isinstance(e, ast.UnaryOp) and isinstance(e.op, ast.UAdd):
            return self.ev(e.operand)
        if isinstance(e, ast.BinOp):
            if isinstance(e.op, ast.Add):
                return self.ev(e.left) + self.ev(e.right)
            if isinstance(e.op, ast.Sub):
                return self.ev(e.left) - self.ev(e.right)
            if isinstance(e.op, ast.Mult):
                return self.ev(e.left) * self.ev(e.right)
            if isinstance(e.op, ast.Div):
                num, den = self.ev(e.left), self.ev(e.right)
                c = den.const_value()
                if c is not None and c != 0:
                    return num.scale(1 / c)
                return num * Poly.atom(f"inv({den!r})")
            return Poly.atom(self.text(e))
        if isinstance(e, ast.Call):
            name = " ".join(ast.unparse(e.func).split())
            if name in ZERO_CALLS and not e.args:
                return ZERO
            if name in TRANSPARENT_CALLS and len(e.args) == 1 and not e.keywords:
                return self.ev(e.args[0])
            if isinstance(e.func, ast.Attribute) and e.func.attr in TRANSPARENT_METHODS \
                    and not e.args:
                return self.ev(e.func.value)
            if name in ("min", "max") and len(e.args) == 1 and not e.keywords and isinstance(
                    e.args[0], (ast.Tuple, ast.List)) and len(e.args[0].elts) >= 2:
                args = sorted(repr(self.ev(a)) for a in e.args[0].elts)   # max((a, b)) == max(a, b)
                return Poly.atom(f"{name}({', '.join(args)})")
            if name in ("min", "max") and len(e.args) >= 2 and not e.keywords:
                args = sorted(repr(self.ev(a)) for a in e.args)
                return Poly.atom(f"{name}({', '.join(args)})")
            if name == "sum" and len(e.args) == 1 and isinstance(
                    e.args[0], (ast.GeneratorExp, ast.ListComp)):
                g = e.args[0]
                dom = "; ".join(
                    f"{self.text(c.target)} in {self.text(c.iter)}"
                    + "".join(f" if {self.text(i)}" for i in c.ifs) for c in g.generators)
                return Poly.atom(f"Σ[{self.ev(g.elt)!r} | {dom}]")
            if name == "abs" and len(e.args) == 1:
                return Poly.atom(f"abs({self.ev(e.args[0])!r})")
            return Poly.atom(self.text(e))
        if isinstance(e, ast.IfExp):
            return Poly.atom(f"if({self.text(e.test)}, {self.ev(e.body)!r}, {self.ev(e.orelse)!r})")
        if isinstance(e, ast.Subscript) and isinstance(e.value, ast.Call) and ast.unparse(e.value.func) == "sorted" \
                and len(e.value.args) == 1 and not e.value.keywords \
                and isinstance(e.value.args[0], (ast.Tuple, ast.List)) and len(e.value.args[0].elts) >= 2:
            idx = e.slice
            if isinstance(idx, ast.UnaryOp) and isinstance(idx.op, ast.USub) and isinstance(idx.operand, ast.Constant):
                idx = ast.Constant(value=-idx.operand.value)
            if isinstance(idx, ast.Constant) and idx.value in (0, -1):   # sorted((a, b))[-1] == max(a, b)
                args = sorted(repr(self.ev(a)) for a in e.value.args[0].elts)
                return Poly.atom(f"{'max' if idx.value == -1 else 'min'}({', '.join(args)})")
        if isinstance(e, (ast.Attribute, ast.Subscript)):
            return Poly.atom(self.text(e))
        return Poly.atom(self.text(e))


def _copy(e: ast.AST) -> ast.AST:
    import copy

    return copy.deepcopy(e)


class _Subst(ast.NodeTransformer):
    """Replace local names that are bound to a single atom by that atom's text (alias resolution)."""

    def __init__(self, te: TermEval) -> None:
        self.te = te

    def visit_Name(self, node: ast.Name) -> ast.AST:  # noqa: N802
        p = self.te.env.get(node.id)
        if p is not None:
            a = p.as_atom()
            if a is not None and a.isidentifier():
                return ast.Name(id=a, ctx=node.ctx)
            if a is not None:
                try:
                    return ast.parse(a, mode="eval").body
                except SyntaxError:
                    return node
        return node


def single_defs(fn: ast.AST, names: Iterable[str] | None = None) -> dict[str, ast.AST]:
    """Locals with exactly one plain assignment in `fn` (and no augmented assignment)."""
    from .resolver import walk_no_nested

    counts: dict[str, int] = {}
    vals: dict[str, ast.AST] = {}
    for n in walk_no_nested(fn):
        if isinstance(n, ast.Assign) and len(n.targets) == 1 and isinstance(n.targets[0], ast.Name):
            k = n.targets[0].id
            counts[k] = counts.get(k, 0) + 1
            vals[k] = n.value
        elif isinstance(n, ast.AnnAssign) and isinstance(n.target, ast.Name) and n.value is not None:
            k = n.target.id
            counts[k] = counts.get(k, 0) + 1
            vals[k] = n.value
        elif isinstance(n, ast.AugAssign) and isinstance(n.target, ast.Name):
            counts[n.target.id] = counts.get(n.target.id, 0) + 10
        elif isinstance(n, (ast.For, ast.AsyncFor, ast.comprehension)):
            for t in ast.walk(n.target):
                if isinstance(t, ast.Name):
                    counts[t.id] = counts.get(t.id, 0) + 10
        elif isinstance(n, ast.Assign):
            for t in n.targets:
                for x in ast.walk(t):
                    if isinstance(x, ast.Name) and isinstance(x.ctx, ast.Store):
                        counts[x.id] = counts.get(x.id, 0) + 10
    out = {k: v for k, v in vals.items() if counts.get(k) == 1
           and not any(isinstance(x, ast.Name) and x.id == k for x in ast.walk(v))}
    if names is not None:
        out = {k: v for k, v in out.items() if k in set(names)}
    return out


def resolve_env(fn: ast.AST, te: TermEval | None = None, depth: int = 6) -> TermEval:
    """TermEval whose env holds the Poly of every single-definition local (iterated)."""
    te = te or TermEval()
    defs = single_defs(fn)
    for _ in range(depth):
        changed = False
        for k, v in defs.items():
            p = te.ev(v)
            if te.env.get(k) != p:
                te.env[k] = p
                changed = True
        if not changed:
            break
    return te


def flow_eval(cfg: Any, nid: int, expr: ast.AST,
              hook: Callable[[ast.AST, TermEval], Poly | None] | None = None,
              depth: int = 8) -> Poly:
    """Flow-sensitive term of `expr` evaluated at CFG node `nid`: a local name with exactly one
    reaching plain assignment is replaced by that assignment's term (recursively); names with
    several reaching definitions, augmented assignments or none (parameters) stay atoms."""
    from .util import reaching_defs

    def atom_hook(e: ast.AST, te: TermEval) -> Poly | None:
        if hook is not None:
            got = hook(e, te)
            if got is not None:
                return got
        if isinstance(e, ast.Name) and depth > 0:
            defs = reaching_defs(cfg, nid, e.id)
            if len(defs) == 1:
                s = cfg.nodes[defs[0]].ast
                val = None
                if isinstance(s, ast.Assign) and len(s.targets) == 1 and isinstance(
                        s.targets[0], ast.Name) and s.targets[0].id == e.id:
                    val = s.value
                elif isinstance(s, ast.AnnAssign) and isinstance(s.target, ast.Name) \
                        and s.target.id == e.id and s.value is not None:
                    val = s.value
                if val is not None:
                    return flow_eval(cfg, defs[0], val, hook, depth - 1)
            return Poly.atom(e.id)
        return None

    return TermEval(atom_hook=atom_hook).ev(expr)
