"""Small shared helpers: canonical boolean forms, AST predicates, CFG conveniences."""
from __future__ import annotations

import ast
from typing import Any, Callable, Iterable

from .cfg import CFG, Node, own_parts
from .report import AnalysisError
from .resolver import FuncInfo, dotted, walk_no_nested


def u(node: ast.AST | None) -> str:
    return "" if node is None else " ".join(ast.unparse(node).split())


# ------------------------------------------------------------------ canonical boolean forms
def canon(expr: ast.AST, neg: bool = False, subst: dict[str, str] | None = None) -> Any:
    """Canonical form of a boolean expression.

    `a > b` == `b < a`; De Morgan is applied; `not (a is None)` == `a is not None`;
    order comparisons are NOT negated into their complements (NaN-safe) but wrapped in ('not', …).
    `subst` renames operand texts (e.g. local alias -> canonical atom).
    """
    def t(e: ast.AST) -> str:
        s = u(e)
        return subst.get(s, s) if subst else s

    if isinstance(expr, ast.BoolOp):
        is_and = isinstance(expr.op, ast.And)
        if neg:
            is_and = not is_and
        kids = frozenset(canon(v, neg, subst) for v in expr.values)
        if len(kids) == 1:
            return next(iter(kids))
        return ("and" if is_and else "or", kids)
    if isinstance(expr, ast.UnaryOp) and isinstance(expr.op, ast.Not):
        return canon(expr.operand, not neg, subst)
    if isinstance(expr, ast.Compare):
        parts = []
        left = expr.left
        for op, right in zip(expr.ops, expr.comparators):
            parts.append(_canon_cmp(t(left), op, t(right), neg))
            left = right
        if len(parts) == 1:
            return parts[0]
        return ("or" if neg else "and", frozenset(parts))
    if isinstance(expr, ast.Constant) and isinstance(expr.value, bool):
        return ("const", expr.value != neg)
    base = ("truthy", t(expr))
    return ("not", base) if neg else base


def _canon_cmp(a: str, op: ast.cmpop, b: str, neg: bool) -> Any:
    if isinstance(op, (ast.Is, ast.IsNot)):
        positive = isinstance(op, ast.Is) != neg
        return ("is" if positive else "isnot", frozenset((a, b)))
    if isinstance(op, (ast.Eq, ast.NotEq)):
        positive = isinstance(op, ast.Eq) != neg
        return ("==" if positive else "!=", frozenset((a, b)))
    if isinstance(op, (ast.In, ast.NotIn)):
        positive = isinstance(op, ast.In) != neg
        return ("in" if positive else "notin", a, b)
    if isinstance(op, ast.Lt):
        base: Any = ("<", a, b)
    elif isinstance(op, ast.Gt):
        base = ("<", b, a)
    elif isinstance(op, ast.LtE):
        base = ("<=", a, b)
    elif isinstance(op, ast.GtE):
        base = ("<=", b, a)
    else:
        base = ("cmp", type(op).__name__, a, b)
    return ("not", base) if neg else base


def canon_total(expr: ast.AST, neg: bool = False, subst: dict[str, str] | None = None) -> Any:
    """Like canon() but for totally ordered operands (ints, datetimes): `not a<b` == `b<=a`."""
    c = canon(expr, neg, subst)
    return _totalise(c)


def _totalise(c: Any) -> Any:
    if isinstance(c, tuple) and c and c[0] == "not":
        inner = c[1]
        if isinstance(inner, tuple) and inner[0] == "<":
            return ("<=", inner[2], inner[1])
        if isinstance(inner, tuple) and inner[0] == "<=":
            return ("<", inner[2], inner[1])
        return ("not", _totalise(inner))
    if isinstance(c, tuple) and c and c[0] in ("and", "or"):
        return (c[0], frozenset(_totalise(k) for k in c[1]))
    return c


# ------------------------------------------------------------------ AST predicates
def is_logging_call(call: ast.Call) -> bool:
    d = dotted(call.func)
    return bool(d) and (d.startswith("_logger.") or d.startswith("logging.") or d.startswith("_log."))


def has_call(node: ast.AST, pred: Callable[[ast.Call], bool]) -> bool:
    return any(isinstance(n, ast.Call) and pred(n) for n in walk_no_nested(node))


def find_calls(node: ast.AST, pred: Callable[[ast.Call], bool]) -> list[ast.Call]:
    return [n for n in walk_no_nested(node) if isinstance(n, ast.Call) and pred(n)]


def method_call(call: ast.Call, base: str | None, attr: str) -> bool:
    """`<base>.<attr>(...)` where base is a dotted text (None = any)."""
    f = call.func
    if not isinstance(f, ast.Attribute) or f.attr != attr:
        return False
    return base is None or u(f.value) == base


def is_super_call(call: ast.Call, attr: str) -> bool:
    f = call.func
    return (
        isinstance(f, ast.Attribute)
        and f.attr == attr
        and isinstance(f.value, ast.Call)
        and isinstance(f.value.func, ast.Name)
        and f.value.func.id == "super"
    )


def assigned_names(target: ast.AST) -> list[str]:
    out = []
    for n in ast.walk(target):
        if isinstance(n, ast.Name) and isinstance(n.ctx, (ast.Store, ast.Del)):
            out.append(n.id)
    return out


def writes_of(stmt: ast.AST) -> list[ast.AST]:
    """Target expressions written by a statement (Assign/AugAssign/AnnAssign/Delete/for/with/walrus)."""
    out: list[ast.AST] = []
    for n in walk_no_nested(stmt):
        if isinstance(n, ast.Assign):
            for tgt in n.targets:
                out.extend(_flatten_target(tgt))
        elif isinstance(n, ast.AugAssign):
            out.append(n.target)
        elif isinstance(n, ast.AnnAssign) and n.value is not None:
            out.append(n.target)
        elif isinstance(n, ast.Delete):
            out.extend(n.targets)
        elif isinstance(n, ast.NamedExpr):
            out.append(n.target)
    return out


def _flatten_target(t: ast.AST) -> list[ast.AST]:
    if isinstance(t, (ast.Tuple, ast.List)):
        out: list[ast.AST] = []
        for e in t.elts:
            out.extend(_flatten_target(e))
        return out
    if isinstance(t, ast.Starred):
        return _flatten_target(t.value)
    return [t]


# ------------------------------------------------------------------ CFG conveniences
def build_cfg(fn: FuncInfo, trust_logging: bool = True, **kw: Any) -> CFG:
    """CFG of a function; logging calls are trusted not to raise (stated assumption)."""
    return CFG(fn.node, fn.file, **kw)


def nodes_with_call(cfg: CFG, pred: Callable[[ast.Call], bool]) -> list[int]:
    out = []
    for n in cfg.nodes:
        if n.ast is None:
            continue
        for part in own_parts(n):
            if has_call(part, pred):
                out.append(n.id)
                break
    return out


def node_writes(cfg: CFG, nid: int) -> list[ast.AST]:
    """Targets written by the node's own statement/expression (not by nested blocks)."""
    n = cfg.nodes[nid]
    out: list[ast.AST] = []
    if n.ast is None:
        return out
    if n.kind == "for":
        out.extend(_flatten_target(n.ast.target))  # type: ignore[attr-defined]
    if n.kind == "with" and getattr(n.ast, "optional_vars", None) is not None:
        out.extend(_flatten_target(n.ast.optional_vars))  # type: ignore[attr-defined]
    if n.kind == "handler":
        return out
    for part in own_parts(n):
        out.extend(writes_of(part))
    return out


def node_has_call(cfg: CFG, nid: int, pred: Callable[[ast.Call], bool]) -> bool:
    return any(has_call(part, pred) for part in own_parts(cfg.nodes[nid]))


def node_calls(cfg: CFG, nid: int, pred: Callable[[ast.Call], bool]) -> list[ast.Call]:
    out: list[ast.Call] = []
    for part in own_parts(cfg.nodes[nid]):
        out.extend(find_calls(part, pred))
    return out


def reaching_defs(cfg: CFG, nid: int, name: str) -> list[int]:
    """CFG nodes whose write of `name` can reach node `nid` (no intervening write)."""
    out: list[int] = []
    seen = {nid}
    stack = [nid]
    while stack:
        n = stack.pop()
        for p, _lab in cfg.pred[n]:
            if p in seen:
                continue
            seen.add(p)
            if any(u(w) == name for w in node_writes(cfg, p)):
                out.append(p)
                continue
            stack.append(p)
    return out


def nodes_where(cfg: CFG, pred: Callable[[Node], bool]) -> list[int]:
    return [n.id for n in cfg.nodes if n.ast is not None and pred(n)]


def normal_edge(_a: int, _b: int, lab: str) -> bool:
    return not lab.startswith("exc:")


def exc_edge(kind: str) -> Callable[[int, int, str], bool]:
    return lambda _a, _b, lab: lab == f"exc:{kind}"


def succ_by(cfg: CFG, nid: int, pred: Callable[[str], bool]) -> list[int]:
    return [m for m, lab in cfg.succ[nid] if pred(lab)]


def require(cond: bool, what: str) -> None:
    if not cond:
        raise AnalysisError(what)


def one(items: Iterable[Any], what: str) -> Any:
    lst = list(items)
    if len(lst) != 1:
        raise AnalysisError(f"expected exactly one {what}, found {len(lst)}")
    return lst[0]


def some(items: Iterable[Any], what: str) -> list[Any]:
    lst = list(items)
    if not lst:
        raise AnalysisError(f"expected at least one {what}, found none")
    return lst
