"""Seeded controls: the rule must fire on an in-memory broken variant of the real source.

A control is (name, module, old_text, new_text, expected_rule).  The patch is applied to the
module's source *in memory* (never to disk); the whole program is re-indexed with that override and
the property's rules are re-run into a scratch Run.  The control passes iff a violation of the
expected rule appears that the unpatched tree does not have.  A patch that no longer applies is
reported as skipped (the code moved on), not failed: a behaviour-preserving refactoring of the
anchored code must not make the check exit non-zero, so skipped controls are recorded in the
evidence and announced on stdout, and the instance floors of the rules remain the guard against
vacuous passes.  (The first version failed closed when more than half were skipped; a held-out
corpus of larger refactorings showed that this turned silent rules into exit 2.)
"""
from __future__ import annotations

from typing import Any, Callable, Sequence

from .report import AnalysisError, Run
from .resolver import Program, apply_patch

Control = tuple[str, str, str, str, str]


def run_controls(run: Run, controls: Sequence[Control],
                 rules: Callable[[Run, Program], Any], tier: str,
                 base_prog: Program | None = None,
                 select: Callable[[str], Callable[[Run, Program], Any]] | None = None) -> None:
    from collections import Counter

    from .report import load_known_findings, match_known

    known = load_known_findings()
    if any(match_known(known, run.prop_id, v) is None for v in run.violations):
        # the tree under analysis already violates a rule (beyond the listed known findings, which every
        # control variant shares with the base tree): report that; the both-ways test of the
        # checker is only meaningful (and only attributable) on a tree that passes
        run.controls.append({"control": "*", "fired": None,
                             "detail": "skipped: the analysed tree has violations"})
        return
    base_keys = Counter(v.key() for v in run.violations)
    skipped = 0
    for name, module, old, new, expect in controls:
        prog0 = base_prog or Program()
        mod = prog0.module(module)
        patched = apply_patch(mod.source, old, new)
        if patched is None:
            skipped += 1
            run.controls.append({"control": name, "fired": None,
                                 "detail": "patch no longer applies (skipped)"})
            continue
        scratch = Run(run.prop_id, tier, run.seed)
        fired = False
        detail = ""
        try:
            prog = Program(overrides={module: patched})
            (select(expect) if select is not None else rules)(scratch, prog)
            seen: Counter = Counter()
            new_v = []
            for v in scratch.violations:
                seen[v.key()] += 1
                if seen[v.key()] > base_keys.get(v.key(), 0) and v.rule.startswith(expect):
                    new_v.append(v)
            fired = bool(new_v)
            if fired:
                detail = f"{new_v[0].rule} @ {new_v[0].function}: {new_v[0].message[:120]}"
            else:
                others = [v.rule for v in scratch.violations if v.key() not in base_keys]  # noqa
                detail = f"expected {expect}; new violations: {others}"
        except AnalysisError as exc:
            fired = True
            detail = f"analysis failed closed: {exc}"
        run.control(name, fired, detail)
    if controls and skipped:
        run.note(f"{skipped}/{len(controls)} in-memory controls no longer apply to this tree (their anchors moved); "
                 "the rules were still decided and the instance floors checked")
        if not run.quiet:
            print(f"  NOTE {run.prop_id}: {skipped}/{len(controls)} in-memory controls no longer apply to this tree")
