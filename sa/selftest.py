"""./check selftest [Cnn ...]  — the both-ways test of the checkers (not a registered property check).

  silent: every check exits 0 on /repo's current tree;
  firing: for every confirmed seeded defect under /verif/seeded/<Cnn>-<k>/ the patch is applied to a
          scratch copy of /repo/src (outside /repo and /verif, removed afterwards) and the property's
          check, pointed at the copy through VERIF_REPO, must exit 1 with a VIOLATION line.
  quiet:  for every behaviour-preserving refactoring under /verif/benign/<Cnn>-<k>/ (each kept the
          full suite green) the patch is applied to a scratch copy and every check whose checker
          mentions a touched file must exit 0: no alarm on code where the property still holds.
Nothing under /repo is touched.  Uses all cores.
"""
from __future__ import annotations

import json
import os
import shutil
import subprocess
import sys
import tempfile
from concurrent.futures import ThreadPoolExecutor
from pathlib import Path

VERIF = Path(__file__).resolve().parents[1]
REPO = Path("/repo")


def run_check(pid: str, repo: Path | None, tier: str = "quick") -> tuple[int, str]:
    env = dict(os.environ)
    if repo is not None:
        env["VERIF_REPO"] = str(repo)
        env["VERIF_SELFTEST"] = "1"
    r = subprocess.run([str(VERIF / "check"), pid, "--tier", tier], capture_output=True, text=True,
                       env=env, cwd=str(VERIF))
    return r.returncode, r.stdout


def seeded_case(d: Path) -> dict:
    pid = d.name.split("-")[0]
    tmp = Path(tempfile.mkdtemp(prefix=f"vst_{d.name}_"))
    try:
        shutil.copytree(REPO / "src", tmp / "src")
        a = subprocess.run(["patch", "-p1", "-s", "-i", str(d / "patch.diff")], cwd=str(tmp),
                           capture_output=True, text=True)
        if a.returncode != 0:
            return {"seed": d.name, "status": "patch-does-not-apply", "detail": a.stdout[-200:] + a.stderr[-200:]}
        rc, out = run_check(pid, tmp)
        rules = sorted({w.strip("[]") for line in out.splitlines() for w in line.split() if w.startswith(f"[{pid}.")})
        return {"seed": d.name, "status": "caught" if rc == 1 and "VIOLATION" in out else
                ("analysis-error" if rc == 2 else "MISSED"), "rules": rules}
    finally:
        shutil.rmtree(tmp, ignore_errors=True)


def relevant_props(patch: Path, own: str, allp: list[str]) -> list[str]:
    stems = {Path(l.split(" b/")[-1].strip()).stem for l in patch.read_text().splitlines() if l.startswith("diff --git")}
    out = {own}
    for p in allp:
        src = "".join(f.read_text() for f in (VERIF / "sa" / "props").glob(f"*{p.lower()}*.py"))
        if any(st in src for st in stems):
            out.add(p)
    return sorted(out)


def benign_case(job: tuple[Path, list[str]]) -> dict:
    d, props = job
    tmp = Path(tempfile.mkdtemp(prefix=f"vsb_{d.name}_"))
    try:
        shutil.copytree(REPO / "src", tmp / "src")
        a = subprocess.run(["patch", "-p1", "-s", "-i", str(d / "patch.diff")], cwd=str(tmp),
                           capture_output=True, text=True)
        if a.returncode != 0:
            return {"refactoring": d.name, "status": "patch-does-not-apply", "alarms": {}}
        alarms = {}
        for pid in props:
            rc, out = run_check(pid, tmp)
            if rc != 0:
                first = [l.strip()[:200] for l in out.splitlines() if l.startswith("ANALYSIS-ERROR") or f"[{pid}." in l][:2]
                alarms[pid] = {"exit": rc, "first": first}
        return {"refactoring": d.name, "status": "quiet" if not alarms else "ALARM", "checked": props, "alarms": alarms}
    finally:
        shutil.rmtree(tmp, ignore_errors=True)


def main(argv: list[str]) -> int:
    only = {a.upper() for a in argv if not a.startswith("-")}
    props = sorted(p.stem.upper() for p in (VERIF / "sa" / "props").glob("c[0-9][0-9].py"))
    if only:
        props = [p for p in props if p in only]
    seeds = sorted(d for d in (VERIF / "seeded").iterdir() if d.is_dir() and (d / "patch.diff").exists()
                   and (not only or d.name.split("-")[0] in only))
    allp = sorted(p.stem.upper() for p in (VERIF / "sa" / "props").glob("c[0-9][0-9].py"))
    bjobs = []
    if (VERIF / "benign").is_dir() and "--no-benign" not in argv:
        for d in sorted((VERIF / "benign").iterdir()):
            if d.is_dir() and (d / "patch.diff").exists():
                rel = relevant_props(d / "patch.diff", d.name.split("-")[0], allp)
                rel = [p for p in rel if not only or p in only]
                if rel:
                    bjobs.append((d, rel))
    bad = 0
    with ThreadPoolExecutor(max_workers=min(16, os.cpu_count() or 4)) as ex:
        clean = list(ex.map(lambda p: (p, *run_check(p, None)), props))
        fired = list(ex.map(seeded_case, seeds))
        quiet = list(ex.map(benign_case, bjobs))
    for p, rc, out in clean:
        ok = rc == 0 and "VIOLATION" not in out
        print(f"silent  {p}: {'ok' if ok else 'FAILED rc=' + str(rc)}")
        bad += 0 if ok else 1
    for r in fired:
        print(f"firing  {r['seed']}: {r['status']} {r.get('rules', '')}")
        bad += 0 if r["status"] == "caught" else 1
    nq = 0
    for r in quiet:
        if r["status"] != "quiet":
            what = ", ".join(f"{k} exit={v['exit']}" for k, v in r["alarms"].items()) or r["status"]
            print(f"quiet   {r['refactoring']}: ALARM {what}")
            bad += 1
        else:
            nq += 1
    if quiet:
        print(f"quiet   {nq}/{len(quiet)} behaviour-preserving refactorings raise no alarm")
    print(f"selftest: {len(clean)} clean runs, {len(fired)} seeded defects, {len(quiet)} refactorings, {bad} problem(s)")
    (VERIF / "reports").mkdir(exist_ok=True)
    res = json.dumps({"clean": [(p, rc) for p, rc, _ in clean], "seeded": fired, "benign": quiet}, indent=1)
    (VERIF / "reports" / "selftest.json").write_text(res)
    if not only:  # a full run: kept apart, partial runs do not overwrite it
        (VERIF / "reports" / "selftest_full.json").write_text(res)
    return 1 if bad else 0
