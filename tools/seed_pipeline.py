#!/venv/bin/python
"""Confirm sub-agent seeded defects and record which check catches them.

usage: tools/seed_pipeline.py C03 [C04 ...] [--src /tmp/seed] [--no-verify]

For every <src>/<Cnn>/<k>/ (patch.diff, demo.py, meta.json):
  1. in a scratch worktree of /repo HEAD: patch applies, the full suite still passes (332), the
     demonstration fails with the patch and passes without it          (tools/verify_seed.sh)
  2. apply the patch to /repo, run `./check Cnn` (quick), undo it at once
  3. copy to /verif/seeded/<Cnn>-<k>/ with meta.json extended by what was run and the verdict.
Nothing is ever committed to /repo.
"""
from __future__ import annotations

import json
import re
import shutil
import subprocess
import sys
from concurrent.futures import ThreadPoolExecutor
from pathlib import Path

VERIF = Path(__file__).resolve().parents[1]


def sh(cmd: str, **kw) -> subprocess.CompletedProcess:
    return subprocess.run(cmd, shell=True, capture_output=True, text=True, **kw)


def verify(src: Path, pid: str, k: str) -> dict:
    r = sh(f"{VERIF}/tools/verify_seed.sh {pid} {k} {src}")
    line = [l for l in r.stdout.splitlines() if l.startswith(f"{pid}/{k}")]
    out = {"raw": line[-1] if line else r.stdout[-300:] + r.stderr[-300:]}
    m = re.search(r"SUITE='([^']*)' DEMO_WITH=(\d+) DEMO_WITHOUT=(\d+)", out["raw"])
    if m:
        out.update(suite=m.group(1), demo_with=int(m.group(2)), demo_without=int(m.group(3)))
        out["confirmed"] = ("332 passed" in m.group(1) and "failed" not in m.group(1)
                            and int(m.group(2)) != 0 and int(m.group(3)) == 0)
    else:
        out["confirmed"] = False
    return out


def run_check(patch: Path, pid: str, tier: str = "quick", in_repo: bool = False) -> dict:
    """Run the check on the changed tree: either on /repo itself (apply, check, undo at once) or,
    by default, on a scratch copy of /repo/src handed to the check through VERIF_REPO (so that other
    work that reads /repo at the same time never sees the change)."""
    if in_repo:
        if sh("git -C /repo diff --quiet").returncode != 0:
            raise SystemExit("/repo is dirty; refusing")
        a = sh(f"git -C /repo apply {patch}")
        if a.returncode != 0:
            return {"applies": False, "detail": a.stderr[-200:]}
        try:
            r = sh(f"cd {VERIF} && VERIF_SELFTEST=1 ./check {pid} --tier {tier}")
        finally:
            sh("git -C /repo checkout -- . && git -C /repo clean -fdq src")
    else:
        import tempfile
        tmp = Path(tempfile.mkdtemp(prefix="vsp_"))
        try:
            shutil.copytree("/repo/src", tmp / "src")
            a = sh(f"patch -p1 -s -i {patch}", cwd=str(tmp))
            if a.returncode != 0:
                return {"applies": False, "detail": (a.stdout + a.stderr)[-200:]}
            r = sh(f"cd {VERIF} && VERIF_REPO={tmp} VERIF_SELFTEST=1 ./check {pid} --tier {tier}")
        finally:
            shutil.rmtree(tmp, ignore_errors=True)
    lines = [l for l in r.stdout.splitlines() if not l.startswith("WARNING conda")]
    rules = sorted(set(re.findall(r"\[(C\d+\.[A-Z0-9]+)\]", r.stdout)))
    return {"applies": True, "exit": r.returncode, "rules": rules,
            "violation_lines": [l.strip()[:300] for l in lines if "[C" in l and "]" in l][:6],
            "analysis_error": [l for l in lines if l.startswith("ANALYSIS-ERROR")][:2]}


def main(argv: list[str]) -> int:
    src = Path("/tmp/seed")
    do_verify = True
    offset = 0
    in_repo = False
    ids = []
    it = iter(argv)
    for a in it:
        if a == "--src":
            src = Path(next(it))
        elif a == "--no-verify":
            do_verify = False
        elif a == "--offset":
            offset = int(next(it))
        elif a == "--in-repo":
            in_repo = True
        else:
            ids.append(a)
    jobs = [(pid, d.name) for pid in ids for d in sorted((src / pid).iterdir())
            if d.is_dir() and (d / "patch.diff").exists()]
    ver: dict[tuple[str, str], dict] = {}
    if do_verify:
        with ThreadPoolExecutor(max_workers=2) as ex:
            for (pid, k), res in zip(jobs, ex.map(lambda j: verify(src, *j), jobs)):
                ver[(pid, k)] = res
    for pid, k in jobs:
        d = src / pid / k
        v = ver.get((pid, k), {})
        chk = run_check(d / "patch.diff", pid, in_repo=in_repo)
        caught = chk.get("applies") and chk.get("exit") == 1
        status = "CAUGHT" if caught else ("ANALYSIS-ERROR" if chk.get("exit") == 2 else
                                          ("NOT-APPLICABLE-PATCH" if not chk.get("applies") else "MISSED"))
        print(f"{pid}-{k}{f' (-> {int(k) + offset})' if offset and k.isdigit() else ''}: "
              f"confirmed={v.get('confirmed')} check={status} rules={chk.get('rules')}")
        for l in chk.get("violation_lines", [])[:2] + chk.get("analysis_error", []):
            print("      ", l[:220])
        if do_verify and not v.get("confirmed"):
            print("       verification:", v.get("raw"))
            continue
        kk = str(int(k) + offset) if k.isdigit() else k
        dest = VERIF / "seeded" / f"{pid}-{kk}"
        dest.mkdir(parents=True, exist_ok=True)
        shutil.copy(d / "patch.diff", dest / "patch.diff")
        shutil.copy(d / "demo.py", dest / "demo.py")
        meta = json.loads((d / "meta.json").read_text())
        prev = None
        first_status = None
        if (dest / "meta.json").exists():
            pm = json.loads((dest / "meta.json").read_text())
            prev = pm.get("confirmed_by_main")
            pcr = pm.get("check_result") or {}
            first_status = pcr.get("status_at_import") or pcr.get("status")
        head = sh("git -C /repo log --format=%h -1").stdout.strip()
        meta["confirmed_by_main"] = {
            "repo_head": head,
            "ran": [f"tools/verify_seed.sh {pid} {k}: git apply in a scratch worktree of /repo HEAD; "
                    "pytest tests -n 6; demo.py with the patch; demo.py after git checkout",
                    (f"git -C /repo apply patch.diff; ./check {pid} --tier quick; git -C /repo checkout -- ." if in_repo
                     else f"patch applied to a scratch copy of /repo/src; VERIF_REPO=<copy> ./check {pid} --tier quick")],
            "suite_with_change": v.get("suite"), "demo_exit_with_change": v.get("demo_with"),
            "demo_exit_without_change": v.get("demo_without"),
        }
        if not do_verify and prev:
            meta["confirmed_by_main"] = prev
        meta["check_result"] = {"status": status, "rules_fired": chk.get("rules"),
                                "first_lines": chk.get("violation_lines", [])[:3],
                                "analysis_error": chk.get("analysis_error")}
        if first_status:
            meta["check_result"]["status_at_import"] = first_status
        (dest / "meta.json").write_text(json.dumps(meta, indent=1))
    return 0


if __name__ == "__main__":
    sys.exit(main(sys.argv[1:]))
