#!/venv/bin/python
"""Replay every seeded defect on /repo itself: `git -C /repo apply patch.diff`, run the property's check
(quick tier) against /repo, `git -C /repo checkout -- .` straight after.  Sequential; refuses to start on a
dirty /repo; never commits anything there.  Records the outcome in each seed's meta.json
(`in_repo_check`).  Run only while nothing else reads /repo."""
import json
import re
import subprocess
import sys
from pathlib import Path

V = Path(__file__).resolve().parents[1]


def sh(cmd: str) -> subprocess.CompletedProcess:
    return subprocess.run(cmd, shell=True, capture_output=True, text=True)


def main() -> int:
    if sh("git -C /repo status --porcelain").stdout.strip():
        print("/repo is dirty; refusing")
        return 2
    head = sh("git -C /repo log --format=%h -1").stdout.strip()
    bad = 0
    only = set(sys.argv[1:])
    for d in sorted((V / "seeded").iterdir()):
        pid = d.name.split("-")[0]
        if only and pid not in only and d.name not in only:
            continue
        a = sh(f"git -C /repo apply {d / 'patch.diff'}")
        if a.returncode != 0:
            print(f"{d.name}: patch does not apply to /repo HEAD: {a.stderr.strip()[:120]}")
            bad += 1
            continue
        try:
            r = sh(f"cd {V} && VERIF_SELFTEST=1 ./check {pid} --tier quick")
        finally:
            sh("git -C /repo checkout -- . && git -C /repo clean -fdq src")
        rules = sorted(set(re.findall(r"\[(C\d+\.[A-Z0-9]+)\]", r.stdout)))
        ok = r.returncode == 1 and "VIOLATION property=" in r.stdout
        print(f"{d.name}: exit={r.returncode} {'caught ' + ','.join(rules) if ok else 'NOT CAUGHT'}")
        bad += 0 if ok else 1
        mp = d / "meta.json"
        m = json.loads(mp.read_text())
        m["in_repo_check"] = {"repo_head": head, "cmd": f"git -C /repo apply seeded/{d.name}/patch.diff; ./check {pid} --tier quick; "
                              "git -C /repo checkout -- .", "exit": r.returncode, "rules_fired": rules}
        mp.write_text(json.dumps(m, indent=1))
    clean = sh("git -C /repo status --porcelain").stdout.strip()
    print(f"done: {bad} problem(s); /repo clean: {not clean}")
    return 1 if bad or clean else 0


if __name__ == "__main__":
    sys.exit(main())
