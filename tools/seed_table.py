#!/venv/bin/python
"""Print the markdown table of confirmed seeded defects (from seeded/*/meta.json)."""
import json
from pathlib import Path
rows = []
for d in sorted(Path("/verif/seeded").iterdir()):
    m = json.loads((d / "meta.json").read_text())
    cr = m.get("check_result", {})
    summ = " ".join(str(m.get("summary", "")).split())
    needs = " ".join(str(m.get("needs", "")).split())
    rows.append(f"| {d.name} | {summ[:170]}{'…' if len(summ) > 170 else ''} | {needs[:110]}{'…' if len(needs) > 110 else ''} | {', '.join(cr.get('rules_fired') or [])} |")
print("| seed | change | needs to manifest | caught by |\n|---|---|---|---|")
print("\n".join(rows))
