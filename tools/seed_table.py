#!/venv/bin/python
"""Print the markdown table of confirmed seeded defects (from seeded/*/meta.json)."""
import json
from pathlib import Path
rows = []
# first-run status of the round-1 seeds (recorded in DESIGN 7.5 at the time; the 8th exit-2 case was not noted)
FIRST = {k: "missed" for k in ("C01-3", "C02-2", "C02-3", "C09-1", "C09-2", "C09-3")}
FIRST.update({k: "exit 2" for k in ("C01-1", "C05-1", "C10-3", "C14-2", "C14-3", "C17-1", "C03-2")})
for d in sorted(Path("/verif/seeded").iterdir()):
    m = json.loads((d / "meta.json").read_text())
    cr = m.get("check_result", {})
    summ = " ".join(str(m.get("summary", "")).split())
    needs = " ".join(str(m.get("needs", "")).split())
    first = cr.get("status_at_import") or cr.get("status") or ""
    first = {"CAUGHT": "caught", "MISSED": "missed", "ANALYSIS-ERROR": "exit 2"}.get(first, first)
    first = FIRST.get(d.name, first)
    now = ", ".join(cr.get("rules_fired") or []) or {"MISSED": "**missed**", "ANALYSIS-ERROR": "exit 2"}.get(cr.get("status"), "")
    rows.append(f"| {d.name} | {summ[:150]}{'…' if len(summ) > 150 else ''} | {needs[:90]}{'…' if len(needs) > 90 else ''} | {first} | {now} |")
print("| seed | change | needs to manifest | first run | caught by (now) |\n|---|---|---|---|---|")
print("\n".join(rows))
