#!/venv/bin/python
"""Print the markdown table of confirmed seeded defects (from seeded/*/meta.json)."""
import json
from pathlib import Path
rows = []
for d in sorted(Path("/verif/seeded").iterdir()):
    m = json.loads((d / "meta.json").read_text())
    cr = m.get("check_result", {})
    summ = " ".join(str(m.get("summary", "")).split())
    needs = " ".join(str(m.get("needs", "")).split())
    first = cr.get("status_at_import") or cr.get("status") or ""
    first = {"CAUGHT": "caught", "MISSED": "missed", "ANALYSIS-ERROR": "exit 2"}.get(first, first)
    now = ", ".join(cr.get("rules_fired") or []) or {"MISSED": "**missed**", "ANALYSIS-ERROR": "exit 2"}.get(cr.get("status"), "")
    rows.append(f"| {d.name} | {summ[:150]}{'…' if len(summ) > 150 else ''} | {needs[:90]}{'…' if len(needs) > 90 else ''} | {first} | {now} |")
print("| seed | change | needs to manifest | first run | caught by (now) |\n|---|---|---|---|---|")
print("\n".join(rows))
