#!/venv/bin/python
"""Print the markdown table of confirmed seeded defects (from seeded/*/meta.json).

usage: tools/seed_table.py [round]      round = 1 | 2 | 3 | 4 | 5 | F (reverse patches of repairs); default: all"""
import json
import sys
from pathlib import Path
rows = []
WANT = sys.argv[1] if len(sys.argv) > 1 else None


def round_of(name: str) -> str:
    pid, k = name.split("-", 1)
    if not k.rstrip("b").isdigit():
        return "F"
    n = int(k.rstrip("b"))
    if n <= 3:
        return "1"
    if n <= 6:
        return "2"
    if n <= 9:
        return "4" if pid in ("C14", "C20") else "3"      # C14 / C20 delivered nothing in round 3
    if n <= 12:
        return "5" if pid in ("C14", "C20") else "4"
    if n <= 15:
        return "6" if pid in ("C14", "C20") else "5"
    return "6"

# first-run status of the round-1 seeds (recorded in DESIGN 7.5 at the time; the 8th exit-2 case was not noted)
FIRST = {k: "missed" for k in ("C01-3", "C02-2", "C02-3", "C09-1", "C09-2", "C09-3")}
FIRST.update({k: "exit 2" for k in ("C01-1", "C05-1", "C10-3", "C14-2", "C14-3", "C17-1", "C03-2")})
for d in sorted(Path("/verif/seeded").iterdir(), key=lambda d: (d.name.split("-")[0], len(d.name), d.name)):
    if WANT is not None and round_of(d.name) != WANT:
        continue
    m = json.loads((d / "meta.json").read_text())
    cr = m.get("check_result", {})
    summ = " ".join(str(m.get("summary", "")).split())
    needs = " ".join(str(m.get("needs", "")).split())
    first = cr.get("status_at_import") or cr.get("status") or ""
    first = {"CAUGHT": "caught", "MISSED": "missed", "ANALYSIS-ERROR": "exit 2"}.get(first, first)
    first = FIRST.get(d.name, first)
    now = ", ".join(cr.get("rules_fired") or []) or {"MISSED": "**missed**", "ANALYSIS-ERROR": "exit 2"}.get(cr.get("status"), "")
    rows.append(f"| {d.name} | {summ[:150]}{'…' if len(summ) > 150 else ''} | {needs[:90]}{'…' if len(needs) > 90 else ''} | {first} | {now} |")
print("| seed | change | needs to manifest | first run | caught by (now) |\n|---|---|---|---|---|")
print("\n".join(rows))
