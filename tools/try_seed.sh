#!/bin/bash
# usage: tools/try_seed.sh <patch.diff> <Cnn> [tier]   — apply to /repo, run the check, always undo
patch="$1"; prop="$2"; tier="${3:-quick}"
cd /repo || exit 9
if ! git diff --quiet; then echo "REPO DIRTY - refusing"; exit 9; fi
git apply "$patch" || { echo "PATCH DOES NOT APPLY: $patch"; exit 8; }
(cd /verif && ./check "$prop" --tier "$tier" 2>&1 | grep -v "^WARNING conda" | grep -E "VIOLATION|ANALYSIS-ERROR|^\[|^  src|^      " | head -${LINES_MAX:-14})
rc=${PIPESTATUS[0]}
git checkout -- . 
git status --short | head -3
