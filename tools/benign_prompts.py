#!/venv/bin/python
"""Prepare a corpus round of behaviour-preserving refactorings: one scratch worktree of /repo HEAD and one
PROMPT.md per property (the sub-agent gets the property text and nothing else from /verif).

usage: tools/benign_prompts.py <round-no> [Cnn ...]
  /tmp/benignwt<r>/<Cnn>   scratch git worktree (detached HEAD of /repo)
  /tmp/benign<r>/<Cnn>/    PROMPT.md, property.json; deliverables <k>/patch.diff + meta.json
Check the deliveries with tools/benign_pipeline.py <Cnn ...> --src /tmp/benign<r> [--keep].
"""
from __future__ import annotations

import json
import subprocess
import sys
from pathlib import Path

V = Path(__file__).resolve().parents[1]
TOUCHED = ("the higher-order formula builders' operators / _clone / _engine_names / both build() methods, Resampler.resample (one snapshot "
           "of the registered timeseries per tick), MovingWindow._run_impl (a rejected too-old sample is dropped, the loop goes on), "
           "FormulaGenerator._get_metric_fallback_components (a meter is primary only when all its successors are requested); earlier ones: "
           "FormulaEngine3Phase._run, FormulaEvaluator.apply / _timestamps_differ, BatteryManager._get_bounds, "
           "_aggregate_battery_power_bounds, PowerBoundsCalculator.calculate, OrderedRingBuffer.count_covered, MovingWindow.at")

TEMPLATE = 'You are helping to test static-analysis tooling for the open-source Python project frequenz-sdk-python by producing BEHAVIOUR-PRESERVING refactorings (the tooling must stay silent on them). This is a further round (the earlier ones were like this one): earlier single-kind refactorings (pure renames, one flipped comparison, one introduced local, one extracted helper, ...) have already been collected; now we want what a maintainer doing a real clean-up commit would produce.\n\nYour sandbox: a scratch git worktree at {wt} (clean checkout of the current head). Python is /venv/bin/python (3.12, deps installed, NO network). Run the test-suite with\n\n    cd {wt} && PYTHONPATH={wt}/src /venv/bin/python -m pytest tests -q -p no:cacheprovider -n 3\n\nBaseline: exactly `332 passed`. One known quirk: tests/actor/test_actor.py::test_does_not_restart_on_normal_exit is flaky when the machine is loaded; if it is the only failure, re-run that test alone and count it as passed if it passes alone. Hard rules: work ONLY inside {wt} and {out}. NEVER use `git stash` (shared between worktrees); use `git diff > file`, `git checkout -- .`, `git apply file`. Never read or write /repo or /verif. Do not modify tests/.\n\nThe semantic property in {out}/property.json tells you which code matters (its "anchors": files, functions, mechanisms). TASK: produce TWO independent clean-up commits — each a separate patch against the clean worktree, each touching SEVERAL of the anchored functions/mechanisms of that property — that a maintainer could plausibly commit and that DO NOT change behaviour in any way (same results for every input, same exceptions of the same type in the same situations, same awaits / interleaving points in the same order, same side effects in the same order). Each patch must COMBINE at least three of the following kinds, and be larger than a toy (30–120 changed lines):\n  a. consistent renaming of locals and of private parameters/private helper names;\n  b. restructuring control flow: early-return <-> if/else <-> conditional expression; `for ... if not c: continue` <-> nested if; De Morgan; flipped comparisons; `x = x + e` <-> `x += e`; merged / split nested ifs; guard clauses reordered when they are mutually exclusive and side-effect free;\n  c. introducing locals for sub-expressions or inlining single-use locals (no reordering of side effects or awaits);\n  d. extracting code into new private helpers (methods, static methods, module-level functions, nested closures), including helpers with several return statements, helpers that return tuples, helpers that take the whole object; or inlining an existing trivial private helper;\n  e. loop <-> comprehension / `any` / `all` / `sum` / `next(...)` when evaluation order and short-circuiting are preserved; `dict.get(k) is None` <-> `k not in d` when values are never None; `set` operators <-> methods;\n  f. keyword <-> positional arguments, reordered keyword arguments, type annotations, comments, docstrings, log texts (same level and arguments), parenthesisation, line breaks;\n  g. reordering independent adjacent statements / dict literal entries / mutually exclusive elif arms / commutative operands when evaluation has no side effects and NaN/None cases are unaffected.\nEach patch must (a) keep the FULL suite at 332 passed, (b) be genuinely semantics-preserving — think hard about exceptions, evaluation order, None/NaN cases, float rounding (do not re-associate float arithmetic), object identity / aliasing, and asyncio interleaving; if in doubt about an edit, leave it out.\n\nDELIVERABLES for k = 1..2 in {out}/<k>/ : patch.diff (output of `git diff`, must apply with `git apply` to a clean checkout) and meta.json {{"property": "{pid}", "kinds": ["a","d",...], "summary": "what was refactored, function by function", "why_equivalent": "...", "suite": "332 passed"}}. Restore the worktree (`git checkout -- .`, remove untracked files you created) before each next patch and leave it clean at the end. Final reply: one short paragraph per patch.\n\nAdditional guidance for this round: prefer edits that CHANGE WHICH FUNCTION holds a piece of logic or HOW it is written rather than only its names — e.g. inline a small private helper into its only caller and delete it; rename a private helper and update its callers; move a nested closure to a private method (or the reverse); split a long function at a natural seam into two private functions that are called in sequence; turn an explicit accumulation loop into `sum(...)`/a comprehension or the reverse; replace a `match` statement by an if-chain or the reverse; replace a flag variable by try/except/else or early `continue`; merge two sibling helpers that differ in one argument into one parametrised helper. Public API (names and signatures of public methods/classes/module functions, attribute names of instance state) must not change.\n\n\nThe last dozen commits of this checkout (`git log --oneline -14`) are small bug fixes (`fix: ...`); the functions they touched ({touched}) are anchored or close to anchored code — include them in your clean-ups where they belong to your property\'s anchors, keeping their new behaviour exactly — the newest repair gives ReportRequest.get_channel_name() a third field, set_operating_point, which must stay in the name — (in particular: a reduction written with `math.fsum` must stay an exactly rounded `math.fsum` over the same values — do not turn it into `sum()` or a `+=` loop, the float result would differ; `timedelta // timedelta` must not become a float division; builder operators must keep extending a COPY and leave self unchanged; the tick must keep pairing results with the snapshot it gathered over, never with a fresh look at the registry after the await).\n'


def main() -> int:
    rnd = int(sys.argv[1])
    props = {json.loads(l)["id"]: json.loads(l) for l in (V / "properties.jsonl").read_text().splitlines() if l.strip()}
    for pid in sys.argv[2:] or sorted(props):
        wt, out = Path(f"/tmp/benignwt{rnd}/{pid}"), Path(f"/tmp/benign{rnd}/{pid}")
        out.mkdir(parents=True, exist_ok=True)
        if not wt.exists():
            wt.parent.mkdir(parents=True, exist_ok=True)
            subprocess.run(["git", "-C", "/repo", "worktree", "add", "-q", "--detach", str(wt), "HEAD"], check=True)
        (out / "property.json").write_text(json.dumps(props[pid], indent=1))
        (out / "PROMPT.md").write_text(TEMPLATE.format(wt=wt, out=out, pid=pid, touched=TOUCHED))
        print(pid, wt, out)
    return 0


if __name__ == "__main__":
    sys.exit(main())
