#!/venv/bin/python
"""After `./check selftest`: record in every seeded/<id>/meta.json what the current checks report for it
(the status recorded when the seed was imported is kept as `status_at_import`)."""
import json
from pathlib import Path

V = Path(__file__).resolve().parents[1]
res = json.loads((V / "reports" / "selftest_full.json").read_text())
for r in res["seeded"]:
    mp = V / "seeded" / r["seed"] / "meta.json"
    m = json.loads(mp.read_text())
    cr = m.setdefault("check_result", {})
    cr.setdefault("status_at_import", cr.get("status"))
    cr["status"] = {"caught": "CAUGHT", "analysis-error": "ANALYSIS-ERROR"}.get(r["status"], r["status"])
    cr["rules_fired"] = r.get("rules") or []
    mp.write_text(json.dumps(m, indent=1))
print(len(res["seeded"]), "seed results refreshed")
