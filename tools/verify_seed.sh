#!/bin/bash
# usage: tools/verify_seed.sh <Cnn> <k> [srcdir]  — confirm a seeded defect in a scratch worktree of /repo HEAD:
#   patch applies, full suite still passes, demo fails with the patch and passes without it.
id="$1"; k="$2"; src="${3:-/tmp/seed}"; d="$src/$id/$k"
wt="/tmp/vwt_${id}_${k}"
git -C /repo worktree add --detach "$wt" HEAD >/dev/null 2>&1 || { echo "worktree failed"; exit 9; }
cleanup() { git -C /repo worktree remove --force "$wt" >/dev/null 2>&1; }
trap cleanup EXIT
cd "$wt" || exit 9
if ! git apply "$d/patch.diff" 2>/dev/null; then echo "$id/$k APPLY=FAIL"; exit 8; fi
out=$(PYTHONPATH="$wt/src" timeout 600 /venv/bin/python -m pytest tests -q -p no:cacheprovider -n 6 2>&1)
suite=$(echo "$out" | tail -1)
if echo "$suite" | grep -q "failed"; then
  # one test (tests/actor/test_actor.py::test_does_not_restart_on_normal_exit) is timing-flaky under load:
  # re-run whatever failed on its own, sequentially; only a failure that repeats counts
  failed=$(echo "$out" | grep -E "^FAILED " | sed 's/^FAILED \([^ ]*\).*/\1/')
  if [ -n "$failed" ] && PYTHONPATH="$wt/src" timeout 300 /venv/bin/python -m pytest $failed -q -p no:cacheprovider >/dev/null 2>&1; then
    n=$(echo "$suite" | sed 's/.* \([0-9]*\) passed.*/\1/'); f=$(echo "$failed" | wc -w)
    suite="$((n+f)) passed (after re-running $f load-flaky test(s) alone: $(echo $failed | tr '\n' ' '))"
  fi
fi
sed -e "s#/tmp/seedwt[0-9]*/$id#$wt#g" -e "s#/tmp/seedwt3/$id#$wt#g" -e "s#/tmp/seedwt2/$id#$wt#g" -e "s#/tmp/seedwt/$id#$wt#g" "$d/demo.py" > /tmp/demo_${id}_${k}.py
PYTHONPATH="$wt/src:$wt" timeout 300 /venv/bin/python /tmp/demo_${id}_${k}.py >/tmp/demo_${id}_${k}.with.log 2>&1; with=$?
git checkout -- . ; git clean -fdq
PYTHONPATH="$wt/src:$wt" timeout 300 /venv/bin/python /tmp/demo_${id}_${k}.py >/tmp/demo_${id}_${k}.without.log 2>&1; without=$?
echo "$id/$k APPLY=ok SUITE='$suite' DEMO_WITH=$with DEMO_WITHOUT=$without"
rm -f /tmp/demo_${id}_${k}.py
