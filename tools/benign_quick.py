#!/venv/bin/python
"""Fast loop: apply behaviour-preserving patches to scratch copies and run the checks (no test-suite).

usage: tools/benign_quick.py [--src DIR] [Cnn ...] [--all-checks] [-v]
Default source is /verif/benign (falls back to /tmp/benign).  By default only the checks of the
properties whose checker modules mention a touched file's stem are run (plus the patch's own
property); --all-checks runs all 20.
"""
from __future__ import annotations

import os
import shutil
import subprocess
import sys
import tempfile
from concurrent.futures import ThreadPoolExecutor
from pathlib import Path

VERIF = Path(__file__).resolve().parents[1]


def props_for(patch: Path, own: str, allp: list[str], everything: bool) -> list[str]:
    if everything:
        return allp
    stems = {Path(l.split(" b/")[-1].strip()).stem for l in patch.read_text().splitlines() if l.startswith("diff --git")}
    out = {own}
    for p in allp:
        src = (VERIF / "sa" / "props" / f"{p.lower()}.py").read_text()
        if any(s in src for s in stems):
            out.add(p)
    return sorted(out)


def one(job):
    name, patch, props, verbose = job
    tmp = Path(tempfile.mkdtemp(prefix="vbq_"))
    res = []
    try:
        shutil.copytree("/repo/src", tmp / "src")
        a = subprocess.run(["patch", "-p1", "-s", "-i", str(patch)], cwd=str(tmp), capture_output=True, text=True)
        if a.returncode != 0:
            return name, [("*", 9, ["patch does not apply"])]
        env = dict(os.environ, VERIF_REPO=str(tmp), VERIF_SELFTEST="1")
        for p in props:
            r = subprocess.run([str(VERIF / "check"), p], capture_output=True, text=True, env=env, cwd=str(VERIF))
            if r.returncode != 0:
                lines = [l.strip() for l in r.stdout.splitlines()
                         if ("[C" in l and "tier=" not in l) or l.startswith("ANALYSIS-ERROR") or l.startswith("      ")]
                res.append((p, r.returncode, lines[: (12 if verbose else 3)]))
    finally:
        shutil.rmtree(tmp, ignore_errors=True)
    return name, res


def main(argv: list[str]) -> int:
    src = VERIF / "benign" if (VERIF / "benign").exists() else Path("/tmp/benign")
    ids, everything, verbose = [], False, False
    it = iter(argv)
    for a in it:
        if a == "--src":
            src = Path(next(it))
        elif a == "--all-checks":
            everything = True
        elif a == "-v":
            verbose = True
        else:
            ids.append(a)
    allp = sorted(p.stem.upper() for p in (VERIF / "sa" / "props").glob("c[0-9][0-9].py"))
    jobs = []
    for d in sorted(src.iterdir()):
        if not d.is_dir():
            continue
        if (d / "patch.diff").exists():  # /verif/benign/Cnn-k layout
            own = d.name.split("-")[0]
            if not ids or own in ids or d.name in ids:
                jobs.append((d.name, d / "patch.diff", props_for(d / "patch.diff", own, allp, everything), verbose))
        else:  # /tmp/benign/Cnn/k layout
            for k in sorted(d.iterdir()):
                if k.is_dir() and (k / "patch.diff").exists() and (not ids or d.name in ids or f"{d.name}-{k.name}" in ids):
                    jobs.append((f"{d.name}-{k.name}", k / "patch.diff", props_for(k / "patch.diff", d.name, allp, everything), verbose))
    bad = 0
    with ThreadPoolExecutor(max_workers=14) as ex:
        for name, res in ex.map(one, jobs):
            if not res:
                print(f"{name}: silent")
                continue
            bad += 1
            print(f"{name}: ALARM")
            for p, rc, lines in res:
                print(f"    {p} exit={rc}")
                for l in lines:
                    print("       ", l[:300])
    print(f"{len(jobs)} refactorings, {bad} with alarms")
    return 1 if bad else 0


if __name__ == "__main__":
    sys.exit(main(sys.argv[1:]))
