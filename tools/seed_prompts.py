#!/venv/bin/python
"""Prepare a seeding round: one scratch worktree of /repo HEAD and one PROMPT.md per property.

usage: tools/seed_prompts.py <round-no> [Cnn ...]      (default: all 20 properties)

  /tmp/seedwt<r>/<Cnn>          scratch git worktree (detached HEAD of /repo)
  /tmp/seed<r>/<Cnn>/PROMPT.md  the whole brief of the sub-agent (it gets nothing from /verif but the
                                property text, copied to property.json, and one-line summaries of the
                                changes already collected for that property -- so that it looks elsewhere)
"""
from __future__ import annotations

import json
import subprocess
import sys
from pathlib import Path

V = Path(__file__).resolve().parents[1]
ORD = {2: "SECOND", 3: "THIRD", 4: "FOURTH", 5: "FIFTH", 6: "SIXTH"}

TEMPLATE = """You are helping to test a verification effort for the open-source Python project frequenz-sdk-python (asyncio actors for microgrid data streaming, formula engine, resampler, ring buffer, battery power distribution, power manager).

Your sandbox: a scratch git worktree of the repository at {wt} (clean checkout of the pinned commit). Python is /venv/bin/python (3.12, all deps installed, NO network). Run the existing test-suite in your worktree with

    cd {wt} && PYTHONPATH={wt}/src /venv/bin/python -m pytest tests -q -p no:cacheprovider -n 4

The baseline is exactly `332 passed` (about 20 s). PYTHONPATH makes your worktree's sources win over the installed copy — always set it, also for your demonstration programs. Test helpers you may reuse live under tests/ (e.g. tests/utils, tests/timeseries/mock_microgrid.py, tests/timeseries/_formula_engine/utils.py).

Hard rules: NEVER use `git stash` (the stash is shared by all worktrees of this repository and other people work in sibling worktrees) — to switch between clean and changed trees use `git diff > file`, `git checkout -- .`, `git apply file`. Work ONLY inside {wt} and {out}. Never read or write /repo or /verif (they do not concern you). Do not modify anything under tests/ as part of a change.

The semantic property under study is in {out}/property.json (read it first: statement, quantifier, anchors = where in the code it is meant to be upheld; line numbers in the anchors may have drifted by a few lines).

TASK: produce THREE independent source changes ("seeded defects") to files under src/ — each one a separate patch against the clean worktree — such that for each change:
  (a) the package still imports and the FULL existing suite still gives 332 passed;
  (b) the change really breaks the property (for some input / schedule / history / fault sequence in the property's quantifier);
  (c) you wrote a demonstration (a small standalone python program `demo.py`, exit code 0 = property observed to hold, non-zero = violated; it may use asyncio, the tests' helpers and mocks) that FAILS with the change applied and PASSES on the clean worktree. Verify both yourself.
Make the changes realistic — the kind of thing a plausible refactor, optimisation or "bug-fix" gone wrong would introduce (a dropped or reordered statement, a flipped or weakened comparison, a guard moved, an await inserted, a wrong but type-correct variable, two sites that each look fine alone but no longer agree, an exception path that skips bookkeeping...). Each change should need something SPECIFIC to manifest (a particular interleaving, a fault at a particular point, a multi-step sequence, an unusual/boundary input, or two cooperating sites), not something ordinary use would expose at once — that is why the existing tests still pass. IMPORTANT — this is a {ordinal} round. The changes listed at the end of this file under 'ALREADY COLLECTED' were produced earlier for this property; do NOT repeat them or close variants of them (same statement, same guard, same function doing the same thing wrong). Look for other mechanisms, other functions named in the property's anchors (and the helpers, callers and data classes they depend on, also in other modules), other clauses of the statement, other cooperating sites, and other kinds of mistake (stale state, wrong-but-type-correct variable, off-by-one at a boundary, lost update across an await, an exception path, a default argument, an ordering of two statements, a sibling function that no longer agrees, a change in a helper or a data class that the anchored code relies on). Make the three changes DIVERSE: different mechanisms / functions / clauses of the property, not three variants of the same edit. Keep each patch small (typically 1–15 changed lines) and type-correct in spirit. Do not add comments that announce the defect.

If the CLEAN tree already violates the property in some way you notice, do not use that as your change; your demo must pass on the clean tree. (Do mention what you noticed in meta.json under "observations", with the concrete input that shows it.)

DELIVERABLES, for k = 1, 2, 3, in {out}/<k>/ :
  patch.diff   — output of `git diff` in the worktree with only that change applied (must apply with `git apply` to a clean checkout)
  demo.py      — the demonstration (runs with: cd {wt} && PYTHONPATH={wt}/src /venv/bin/python {out}/<k>/demo.py)
  meta.json    — {{"property": "{pid}", "summary": "...what was changed and why it breaks the property...", "needs": "...what specific input/schedule/sequence is needed to manifest...", "files_changed": [...], "suite_with_change": "332 passed", "demo_with_change": "fails: <observed output>", "demo_without_change": "passes", "observations": "..."}}
Write each deliverable directory as soon as that change is finished (do not keep all three for the end). After producing each patch, restore the worktree (`git checkout -- .`) before starting the next one, and leave it clean at the end. If after honest effort you can only produce fewer than three that satisfy (a)–(c), deliver those and say so. Your final reply: a short list of the changes (one line each) and confirmation of what you ran.


ALREADY COLLECTED for this property (do not repeat):
{collected}
"""


def main() -> int:
    rnd = int(sys.argv[1])
    props = {}
    for line in (V / "properties.jsonl").read_text().splitlines():
        if line.strip():
            d = json.loads(line)
            props[d["id"]] = d
    pids = sys.argv[2:] or sorted(props)
    for pid in pids:
        wt, out = Path(f"/tmp/seedwt{rnd}/{pid}"), Path(f"/tmp/seed{rnd}/{pid}")
        out.mkdir(parents=True, exist_ok=True)
        if not wt.exists():
            wt.parent.mkdir(parents=True, exist_ok=True)
            subprocess.run(["git", "-C", "/repo", "worktree", "add", "-q", "--detach", str(wt), "HEAD"], check=True)
        (out / "property.json").write_text(json.dumps(props[pid], indent=1))
        got = []
        for d in sorted((V / "seeded").glob(f"{pid}-*")):
            m = json.loads((d / "meta.json").read_text())
            got.append("- " + " ".join(str(m.get("summary", "")).split())[:420])
        (out / "PROMPT.md").write_text(TEMPLATE.format(wt=wt, out=out, pid=pid, ordinal=ORD.get(rnd, f"{rnd}th"),
                                                       collected="\n".join(got) or "(none)"))
        print(pid, wt, out, len(got), "collected")
    return 0


if __name__ == "__main__":
    sys.exit(main())
