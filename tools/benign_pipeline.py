#!/venv/bin/python
"""Check that behaviour-preserving refactorings keep the checks silent.

usage: tools/benign_pipeline.py C07 [C08 ...] [--src /tmp/benign] [--keep]

For every <src>/<Cnn>/<k>/patch.diff: (1) in a scratch worktree of /repo HEAD the patch applies and
the full suite still passes; (2) the patch is applied to a scratch copy of /repo/src and *every*
registered check (not only Cnn's — a refactoring may touch code other properties anchor) is run
against it through VERIF_REPO: all must exit 0.  With --keep, patches that pass (1) are copied to
/verif/benign/<Cnn>-<k>/ so that `./check selftest` replays them.
"""
from __future__ import annotations

import json
import os
import shutil
import subprocess
import sys
import tempfile
from concurrent.futures import ThreadPoolExecutor
from pathlib import Path

VERIF = Path(__file__).resolve().parents[1]


def sh(cmd: str, **kw) -> subprocess.CompletedProcess:
    return subprocess.run(cmd, shell=True, capture_output=True, text=True, **kw)


def suite_ok(patch: Path, tag: str) -> tuple[bool, str]:
    wt = f"/tmp/bwt_{tag}"
    sh(f"git -C /repo worktree add --detach {wt} HEAD")
    try:
        a = sh(f"git -C {wt} apply {patch}")
        if a.returncode != 0:
            return False, "patch does not apply: " + a.stderr[-200:]
        r = sh(f"cd {wt} && PYTHONPATH={wt}/src timeout 600 /venv/bin/python -m pytest tests -q -p no:cacheprovider -n 6 2>&1")
        line = r.stdout.strip().splitlines()[-1] if r.stdout.strip() else ""
        if "failed" in line:
            failed = [l.split()[1] for l in r.stdout.splitlines() if l.startswith("FAILED ")]
            if failed:
                r2 = sh(f"cd {wt} && PYTHONPATH={wt}/src timeout 300 /venv/bin/python -m pytest {' '.join(failed)} -q -p no:cacheprovider")
                if r2.returncode == 0:
                    line = f"332 passed (load-flaky {failed} passed when re-run alone)"
        return ("332 passed" in line and "failed" not in line.split("(")[0]), line
    finally:
        sh(f"git -C /repo worktree remove --force {wt}")


def checks_on(patch: Path, props: list[str]) -> dict[str, tuple[int, list[str]]]:
    tmp = Path(tempfile.mkdtemp(prefix="vbn_"))
    out = {}
    try:
        shutil.copytree("/repo/src", tmp / "src")
        a = sh(f"patch -p1 -s -i {patch}", cwd=str(tmp))
        if a.returncode != 0:
            return {"*": (9, ["patch does not apply"])}
        env = dict(os.environ, VERIF_REPO=str(tmp), VERIF_SELFTEST="1")
        for p in props:
            r = subprocess.run([str(VERIF / "check"), p], capture_output=True, text=True, env=env, cwd=str(VERIF))
            lines = [l.strip()[:260] for l in r.stdout.splitlines() if "[C" in l and "]" in l and "tier=" not in l or l.startswith("ANALYSIS-ERROR")]
            out[p] = (r.returncode, lines[:4])
    finally:
        shutil.rmtree(tmp, ignore_errors=True)
    return out


def main(argv: list[str]) -> int:
    src = Path("/tmp/benign")
    keep = "--keep" in argv
    ids = []
    offset = 0
    it = iter(argv)
    for a in it:
        if a == "--src":
            src = Path(next(it))
        elif a == "--offset":
            offset = int(next(it))
        elif not a.startswith("--"):
            ids.append(a)
    props = sorted(p.stem.upper() for p in (VERIF / "sa" / "props").glob("c[0-9][0-9].py"))
    jobs = [(pid, d) for pid in ids for d in sorted((src / pid).iterdir()) if d.is_dir() and (d / "patch.diff").exists()]

    def one(job):
        pid, d = job
        ok, line = suite_ok(d / "patch.diff", f"{pid}_{d.name}")
        res = checks_on(d / "patch.diff", props) if ok else {}
        return pid, d, ok, line, res

    bad = 0
    with ThreadPoolExecutor(max_workers=3) as ex:
        for pid, d, ok, line, res in ex.map(one, jobs):
            alarms = {p: v for p, v in res.items() if v[0] != 0}
            status = "SUITE-FAILS" if not ok else ("silent" if not alarms else "ALARM")
            print(f"{pid}-{d.name}: {status} {line if not ok else ''}")
            for p, (rc, lines) in alarms.items():
                bad += 1
                print(f"    {p} exit={rc}")
                for l in lines[:3]:
                    print("       ", l)
            if keep and ok:
                dest = VERIF / "benign" / f"{pid}-{int(d.name) + offset if d.name.isdigit() else d.name}"
                dest.mkdir(parents=True, exist_ok=True)
                shutil.copy(d / "patch.diff", dest / "patch.diff")
                meta = json.loads((d / "meta.json").read_text()) if (d / "meta.json").exists() else {}
                meta["checked_by_main"] = {"suite": line, "alarms": {p: v[1] for p, v in alarms.items()}}
                (dest / "meta.json").write_text(json.dumps(meta, indent=1))
    print(f"{len(jobs)} refactorings, {bad} alarm(s)")
    return 1 if bad else 0


if __name__ == "__main__":
    sys.exit(main(sys.argv[1:]))
